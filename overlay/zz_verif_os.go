package avfs

// VerifSetOS sets the emulated OS type and separator directly (verification
// overlay; not part of the repository). C13 must not depend on SetOSType,
// which is the subject of C17.
func VerifSetOS(o *OSTypeFn, t OSType, sep uint8) { o.osType = t; o.pathSeparator = sep }
