package main

import "verif/engine"

func init() {
	reg(&property{
		ID: "C04",
		Groups: func(tier string, seed int) []group {
			cfg := engine.DefaultConfig()
			cfg.Budget = 8000000
			var cs []engine.Case
			for op := int64(0); op < 15; op++ {
				maxN := int64(3)
				if tier == "thorough" {
					maxN = 4
				}
				for n := int64(1); n <= maxN; n++ {
					cs = append(cs, mkCase("", "c04", "HLink", cfg, op, 1, n, 0))
				}
				// two links: chains and cycles
				cs = append(cs, mkCase("", "c04", "HLink", cfg, op, 2, 1, 1), mkCase("", "c04", "HLink", cfg, op, 2, 2, 1), mkCase("", "c04", "HLink", cfg, op, 2, 1, 2))
				if tier == "thorough" {
					cs = append(cs, mkCase("", "c04", "HLink", cfg, op, 2, 2, 2), mkCase("", "c04", "HLink", cfg, op, 2, 3, 2), mkCase("", "c04", "HLink", cfg, op, 2, 2, 3))
				}
			}
			// long chains around the kernel's limit of 40 links (and the implementation's own constant)
			cs = append(cs, mkCase("", "c04", "HChain", cfg, 30, 34), mkCase("", "c04", "HChain", cfg, 37, 42))
			if tier == "thorough" {
				cs = append(cs, mkCase("", "c04", "HChain", cfg, 1, 29), mkCase("", "c04", "HChain", cfg, 43, 66))
			}
			return []group{{Tags: "", Pkgs: []string{"c04"}, Cases: cs}}
		},
		Reach:       []string{"query", "chain"},
		Explanation: "Differential bounded symbolic execution of MemFS' path walk (searchNode in its three modes, PathIterator.ReplacePart, Symlink, Readlink, EvalSymlinks and every caller's choice of mode) against posixref's kernel path walk and Go's EvalSymlinks algorithm over the model: base tree {a/, a/a, b}; one or two symbolic links (/w/c, /w/a/c) whose TARGETS ARE SYMBOLIC STRINGS (every byte value except NUL), so sibling, parent-relative, absolute, self-referential, cyclic, dangling and every other target shape of that length is covered without listing shapes; 15 operations (Stat, Lstat, ReadFile, ReadDir, Chmod, Truncate, Mkdir below, EvalSymlinks, Readlink, Remove, Rename, Lchown, Link, Open with O_CREATE, Rename onto the link) on six query paths through the link names; errno, result and the state of every object must equal the model. The reference worlds are given the lexically cleaned target (the property grants cleaning). Natively every path is replayed against the kernel inside a chroot(2) scratch directory (arbitrary targets cannot escape); model/kernel disagreement = ORACLE mismatch (exit 3).",
		Bounds: func(tier string) map[string]any {
			return map[string]any{"links": "1 or 2", "target_length": map[string]string{"quick": "1..3 (one link), up to 2+1 (two links)", "thorough": "1..4 (one link), up to 3+2 (two links)"}[tier], "query_paths": 6, "outside": "longer targets, chains near the kernel limit of 40 (the code allows 64), query paths containing '..', more than two links"}
		},
		Trusted: []string{"posixref path walk and EvalSymlinks port (/verif/harness/posix), cross-validated against the kernel (chroot) on every explored path"},
	})
}
