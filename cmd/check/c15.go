package main

import "verif/engine"

func init() {
	reg(&property{
		ID: "C15",
		Groups: func(tier string, seed int) []group {
			cfg := engine.DefaultConfig()
			var cs []engine.Case
			if tier == "thorough" {
				cs = append(cs, mkCase("", "c15", "HSeq", cfg, 1, 3, 0), mkCase("", "c15", "HSeq", cfg, 2, 2, 0), mkCase("", "c15", "HSeq", cfg, 3, 1, 0), mkCase("", "c15", "HSeq", cfg, 3, 2, 0))
				for pre := int64(1); pre < 6; pre++ {
					cs = append(cs, mkCase("", "c15", "HSeq", cfg, 2, 1, pre))
				}
			} else {
				cs = append(cs, mkCase("", "c15", "HSeq", cfg, 1, 2, 0), mkCase("", "c15", "HSeq", cfg, 2, 1, 0), mkCase("", "c15", "HSeq", cfg, 2, 2, 0))
				for pre := int64(1); pre < 6; pre++ {
					cs = append(cs, mkCase("", "c15", "HSeq", cfg, 1, 1, pre))
				}
			}
			ccfg := cfg
			ccfg.Preempt = 3
			for a := int64(0); a < 11; a++ {
				for b := a; b < 11; b++ {
					cs = append(cs, mkCase("", "c15", "HConc", ccfg, a, b))
				}
			}
			return []group{{Tags: "", Pkgs: []string{"c15"}, Cases: cs}}
		},
		Reach:       []string{"start", "end", "concurrent", "joined"},
		Explanation: "Bounded symbolic execution of all of idm/memidm in lock-step with a two-list reference model written in the harness: a history of L calls chosen among AddGroup, AddUser, DelGroup, DelUser, LookupGroup, LookupGroupId, LookupUser, LookupUserId; names are drawn from a pool (the administrator's name, a, b) or are fully symbolic strings (all 256 byte values per byte), ids are symbolic 64-bit integers; after every step results, documented error types and payloads, by-name/by-id agreement for every entry ever created, id monotonicity (a deleted id is never found again) and IsAdmin <=> the administrator are asserted. Concurrent half: every unordered pair of 11 calls (over a small pool of names) is run by two interpreted goroutines on one shared MemIdm under every interleaving at lock granularity (pre-emption bound 3); results and final by-name/by-id state must equal those of a sequential order (bounded exhaustive schedule exploration; decided in the interpreter only).",
		Bounds: func(tier string) map[string]any {
			if tier == "thorough" {
				return map[string]any{"history_length_x_symbolic_name_length": "L=1,n=3; L=2,n=2; L=3,n<=2; 5 concrete prefix histories (2-4 calls: add/delete user, add/delete group, group deleted under its user, administrator deleted) followed by L=2,n=1", "concurrent": "2 goroutines x 1 call, 66 pairs, pre-emption bound 3", "outside": "longer histories; more goroutines"}
			}
			return map[string]any{"history_length_x_symbolic_name_length": "L=1,n=2; L=2,n<=2; 5 concrete prefix histories (2-4 calls) followed by L=1,n=1", "concurrent": "2 goroutines x 1 call, 66 pairs, pre-emption bound 3", "outside": "longer histories; more goroutines"}
		},
		Trusted: []string{"the harness reference model (two lists with monotone counters)"},
	})
}
