package main

import "verif/engine"

func init() {
	reg(&property{
		ID: "C15",
		Groups: func(tier string, seed int) []group {
			cfg := engine.DefaultConfig()
			var cs []engine.Case
			if tier == "thorough" {
				cs = append(cs, mkCase("", "c15", "HSeq", cfg, 1, 3), mkCase("", "c15", "HSeq", cfg, 2, 2), mkCase("", "c15", "HSeq", cfg, 3, 1), mkCase("", "c15", "HSeq", cfg, 3, 2))
			} else {
				cs = append(cs, mkCase("", "c15", "HSeq", cfg, 1, 2), mkCase("", "c15", "HSeq", cfg, 2, 1), mkCase("", "c15", "HSeq", cfg, 2, 2))
			}
			return []group{{Tags: "", Pkgs: []string{"c15"}, Cases: cs}}
		},
		Reach:       []string{"start", "end"},
		Explanation: "Bounded symbolic execution of all of idm/memidm in lock-step with a two-list reference model written in the harness: a history of L calls chosen among AddGroup, AddUser, DelGroup, DelUser, LookupGroup, LookupGroupId, LookupUser, LookupUserId; names are drawn from a pool (the administrator's name, a, b) or are fully symbolic strings (all 256 byte values per byte), ids are symbolic 64-bit integers; after every step results, documented error types and payloads, by-name/by-id agreement for every entry ever created, id monotonicity (a deleted id is never found again) and IsAdmin <=> the administrator are asserted.",
		Bounds: func(tier string) map[string]any {
			if tier == "thorough" {
				return map[string]any{"history_length_x_symbolic_name_length": "L=1,n=3; L=2,n=2; L=3,n<=2", "outside": "longer histories; concurrent histories (C06-style scheduler harness)"}
			}
			return map[string]any{"history_length_x_symbolic_name_length": "L=1,n=2; L=2,n<=2", "outside": "longer histories; concurrent histories"}
		},
		Trusted: []string{"the harness reference model (two lists with monotone counters)"},
	})
}
