package main

import "verif/engine"

func init() {
	reg(&property{
		ID: "C17",
		Groups: func(tier string, seed int) []group {
			cfg := engine.DefaultConfig()
			cfg.Budget = 6000000
			tags := "avfs_setostype"
			var cs []engine.Case
			for kind := int64(0); kind <= 1; kind++ {
				for os := int64(0); os <= 1; os++ {
					cs = append(cs, mkCase(tags, "c17", "HConfig", cfg, kind, os))
				}
				seeds := []int64{1}
				if tier == "thorough" {
					seeds = []int64{0, 1, 2}
				}
				for _, s := range seeds {
					for t := int64(0); t < 12; t++ {
						cs = append(cs, mkCase(tags, "c17", "HLockstep", cfg, kind, s, t))
					}
				}
			}
			L := int64(2)
			if tier == "thorough" {
				L = 3
			}
			cs = append(cs, mkCase(tags, "c17", "HVolumes", cfg, L))
			cs = append(cs, mkCase(tags, "c17", "HVolumeIso", cfg))
			return []group{{Tags: tags, Pkgs: []string{"c17"}, Cases: cs}}
		},
		Reach:       []string{"config", "lockstep", "volumes", "volume-iso"},
		Explanation: "Bounded symbolic execution with build tag avfs_setostype (OS-type selection enabled) on this Linux host: (a) MemFS/OrefaFS constructed with OSType Windows and Linux report the type, separator, FeatSetOSType and the OS's error values; (b) lock-step: the same call template (12 templates, operands over a 9-path portable universe built with Join under the instance's own root/volume, symbolic flags/sizes/bytes) on a Windows-typed and a Linux-typed instance must agree on success/failure and leave isomorphic trees (names, types, contents, link counts); (c) all VolumeAdd/VolumeDelete/VolumeList sequences of length L over six volume names against a set model.",
		Bounds: func(tier string) map[string]any {
			return map[string]any{"history_length": 1, "seed_trees": map[string]string{"quick": "1", "thorough": "0,1,2"}[tier], "volume_sequence_length": map[string]int{"quick": 2, "thorough": 3}[tier], "outside": "longer histories; Chown/Lchown/permission bits (documented as OS-specific); symbolic links (not portable); the untagged build"}
		},
	})
}
