package main

import "verif/engine"

// pairCases enumerates the two-goroutine programs (all unordered pairs of templates).
func pairCases(cfg engine.Config, kinds []int64, ops []int64) []engine.Case {
	var cs []engine.Case
	for _, kind := range kinds {
		for i, a := range ops {
			for _, b := range ops[i:] {
				cs = append(cs, mkCase("", "c06", "HPair", cfg, kind, a, b))
			}
		}
		for da := int64(0); da <= 1; da++ {
			for db := da; db <= 1; db++ {
				cs = append(cs, mkCase("", "c06", "HTempPair", cfg, kind, da, db))
			}
		}
	}
	return cs
}

// allOps are the indices of the non-temporary templates of c06.Ops; coreOps the quick subset.
var allOps = []int64{0, 1, 2, 3, 4, 5, 6, 7, 8, 9, 10, 11, 12, 13, 14, 15, 16, 19, 20, 21, 22, 23, 24, 25}
var coreOps = []int64{0, 1, 3, 4, 5, 7, 8, 9, 10, 12, 13, 14, 22, 24, 25}

// core8: the (five) templates explored at pre-emption bound 3 in the thorough tier.
var core8 = []int64{0, 1, 4, 8, 12}

func init() {
	reg(&property{
		ID: "C06",
		Groups: func(tier string, seed int) []group {
			cfg := engine.DefaultConfig()
			cfg.Preempt = 2
			cfg.Budget = 6000000
			cs := pairCases(cfg, []int64{0, 1}, coreOps)
			if tier == "thorough" {
				// every pair of the 24 templates at bound 2, the 8 core templates again at bound 3
				cs = pairCases(cfg, []int64{0, 1}, allOps)
				cfg3 := cfg
				cfg3.Preempt = 3
				cs = append(cs, pairCases(cfg3, []int64{0, 1}, core8)...)
				// three goroutines on three core templates
				core := []int64{0, 4, 8}
				for _, kind := range []int64{0, 1} {
					for i, a := range core {
						for j := i; j < len(core); j++ {
							for k := j; k < len(core); k++ {
								cs = append(cs, mkCase("", "c06", "HTriple", cfg, kind, a, core[j], core[k]))
							}
						}
					}
				}
			}
			return []group{{Tags: "", Pkgs: []string{"c06"}, Cases: cs}}
		},
		Reach:       []string{"concurrent", "joined"},
		NoNative:    true,
		Explanation: "Bounded exhaustive schedule exploration through the same fork machinery (the solver's part is degenerate here: schedule and random-name choices are enumeration points): every unordered pair of 22 call templates on overlapping names is run by two interpreted goroutines (MemFS: each through its own Sub(\"/\") view; OrefaFS: shared) under every interleaving at lock-acquisition/atomic granularity within the pre-emption bound; the results and the final tree must equal those of one of the sequential orders of the same calls run on fresh instances in the same symbolic run. CreateTemp/MkdirTemp use the symbolic random-name stub (two draws in {0,1}), so colliding names are explored. A schedule in which no goroutine can run is reported as a deadlock.",
		Bounds: func(tier string) map[string]any {
			if tier == "thorough" {
				return map[string]any{"goroutines": "2 (all 300 pairs of the 24 templates + temporary-name pairs at pre-emption bound 2; the 15 pairs of 5 core templates at bound 3) and 3 (10 triples of 3 core templates, bound 2)", "calls_per_goroutine": 1, "scheduling_points": "before Lock/RLock, at atomics, at blocking, at goroutine start/exit", "outside": "more goroutines, longer programs, pre-emption at unsynchronised accesses, free-running stress"}
			}
			return map[string]any{"goroutines": 2, "template_pairs": "120 (15 core templates) + 3 temporary-name pairs per file system", "calls_per_goroutine": 1, "preemption_bound": 2, "scheduling_points": "before Lock/RLock, at atomics, at blocking, at goroutine start/exit", "outside": "3 goroutines (thorough), longer programs, pre-emption at unsynchronised accesses, free-running stress"}
		},
		Assumptions: []string{"sequentially consistent interleaving; schedules are not replayed natively (no controlled native scheduler): a reported schedule is deterministic in the interpreter and the violation is marked 'skipped: concurrent schedule'"},
	})
}
