package main

import "verif/engine"

func init() {
	reg(&property{
		ID: "C08",
		Groups: func(tier string, seed int) []group {
			cfg := engine.DefaultConfig()
			cfg.Preempt = 2
			cfg.Race = true
			cfg.Budget = 6000000
			cfg3 := cfg
			cfg3.Preempt = 3
			var cs []engine.Case
			ops := coreOps
			if tier == "thorough" {
				ops = allOps
			}
			for _, kind := range []int64{0, 1} {
				for i, a := range ops {
					for _, b := range ops[i:] {
						cs = append(cs, mkCase("", "c08", "HNamespace", cfg, kind, a, b))
					}
				}
				if tier == "thorough" {
					for i, a := range core8 {
						for _, b := range core8[i:] {
							cs = append(cs, mkCase("", "c08", "HNamespace", cfg3, kind, a, b))
						}
					}
				}
				for shared := int64(0); shared <= 1; shared++ {
					for a := int64(0); a < 11; a++ {
						for b := a; b < 11; b++ {
							cs = append(cs, mkCase("", "c08", "HFilePair", cfg, kind, shared, a, b))
						}
					}
				}
			}
			for a := int64(0); a < 8; a++ {
				for b := a; b < 8; b++ {
					cs = append(cs, mkCase("", "c08", "HIdmPair", cfg, a, b))
				}
			}
			for a := int64(0); a < 7; a++ {
				for b := a; b < 7; b++ {
					cs = append(cs, mkCase("", "c08", "HViews", cfg, a, b))
				}
			}
			return []group{{Tags: "", Pkgs: []string{"c08"}, Cases: cs}}
		},
		Reach:       []string{"namespace", "files", "idm", "views"},
		NoNative:    true,
		IgnoreKinds: map[string]bool{"DEADLOCK": true}, // deadlocking schedules are C07's claim
		Explanation: "Bounded exhaustive schedule exploration with a happens-before (vector clock) data-race monitor over every interpreted heap cell and map of the real code's SSA: two-goroutine programs covering (1) pairs of namespace calls through per-goroutine Sub views of one MemFS / one shared OrefaFS, (2) pairs of File methods on one file through two distinct handles and through one shared handle, (3) pairs of MemIdm calls on one shared identity manager, (4) per-goroutine Sub views that set their own user, umask and working directory and then operate. Edges: mutex/RWMutex release->acquire, WaitGroup Done->Wait, goroutine start/join; atomics are not data accesses. A pair of conflicting accesses (at least one write; map operations count as accesses to the map) not ordered by happens-before in an explored schedule is reported as a race; the solver's part is degenerate (schedule choices are enumeration points). The predicted OrefaFile shared-handle race was confirmed natively with go run -race before it was fixed.",
		Bounds: func(tier string) map[string]any {
			return map[string]any{"goroutines": 2, "calls_per_goroutine": 1, "preemption_bound": map[string]string{"quick": "2", "thorough": "2; 3 for the namespace pairs of 5 core templates"}[tier], "scheduling_points": "before Lock/RLock, at atomics, at blocking, goroutine start/exit (sufficient to expose the first race of a program: accesses between two synchronisation operations of a thread are not interleaved further)", "outside": "3-16 goroutines, long random programs, free-running execution under the Go race detector"}
		},
		Assumptions: []string{"the monitor sees interpreted code only: races inside intrinsics (sync, atomic, bytealg) are not modelled", "schedules are decided in the interpreter only"},
	})
}
