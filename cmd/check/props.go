package main

import (
	"fmt"

	"verif/engine"
)

var properties = map[string]*property{}

func reg(p *property) { properties[p.ID] = p }

// mkCase builds a case named pkg.Func(args).
func mkCase(tags, pkg, fn string, cfg engine.Config, args ...int64) engine.Case {
	name := fmt.Sprintf("%s.%s%v", pkg, fn, args)
	caseTags[name] = tags
	return engine.Case{Name: name, Pkg: "verif/harness/" + pkg, Func: fn, Args: args, Cfg: cfg}
}
