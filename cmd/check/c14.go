package main

import "verif/engine"

func init() {
	reg(&property{
		ID: "C14",
		Groups: func(tier string, seed int) []group {
			cfg := engine.DefaultConfig()
			cfg.Budget = 8000000
			var cs []engine.Case
			kinds := []int64{0, 1, 2, 4} // memfs, orefafs, rofs, failfs (basepathfs: see C10)
			maxN := int64(3)
			visits := int64(3)
			if tier == "thorough" {
				maxN = 4 // MemFS only; OrefaFS 3, wrappers 2
				visits = 4
			}
			for _, kind := range kinds {
				for n := int64(0); n <= maxN; n++ {
					if kind >= 2 && n > 2 || kind == 1 && n > 3 {
						continue
					}
					cs = append(cs, mkCase("", "c14", "HGlob", cfg, kind, n, 0))
					if n >= 1 && n <= 2 || n == 3 && kind == 0 {
						// patterns at the root and relative to the working directory
						cs = append(cs, mkCase("", "c14", "HGlob", cfg, kind, n, 1), mkCase("", "c14", "HGlob", cfg, kind, n, 2))
					}
					if kind == 0 && n >= 2 && n <= 3 {
						// a non-administrator and a directory that can be searched but not listed
						cs = append(cs, mkCase("", "c14", "HGlob", cfg, kind, n, 3))
					}
					if n <= 2 {
						cs = append(cs, mkCase("", "c14", "HHelpers", cfg, kind, n))
					}
				}
				for r := int64(0); r < 5; r++ {
					cs = append(cs, mkCase("", "c14", "HWalk", cfg, kind, r, visits))
				}
			}
			return []group{{Tags: "", Pkgs: []string{"c14"}, Cases: cs}}
		},
		Reach:       []string{"glob", "walk", "helpers"},
		Explanation: "Bounded symbolic execution of avfs.Glob (glob, hasMeta, cleanGlobPath), avfs.WalkDir/walkDir, avfs.ReadDir and the helpers Exists/DirExists/IsDir/IsEmpty over MemFS, OrefaFS, RoFS and FailFS on a seed tree (two directories, three files, one symbolic link where supported). Glob: the pattern is \"/w/\" followed by n fully symbolic bytes (all values but NUL: names, '*', '?', classes, escapes, separators); the result must equal Go 1.23's own Glob algorithm executed in the same run over the same file system through Lstat/Stat/ReadDir (sorted, nil when empty, ErrBadPattern exactly for malformed patterns). WalkDir: the callback's answer at each of the first k visits is a symbolic choice among nil, SkipDir, SkipAll and an error; the visit sequence and the returned error must equal Go's WalkDir algorithm. Natively the reference algorithms are compared with filepath.Glob / filepath.WalkDir on an identical tree on tmpfs for every witness (ORACLE mismatch = exit 3).",
		Bounds: func(tier string) map[string]any {
			return map[string]any{"glob_symbolic_pattern_bytes": map[string]string{"quick": "3 (wrappers 2; root-level and relative patterns 2, MemFS 3)", "thorough": "4 on MemFS, 3 on OrefaFS, 2 through wrappers"}[tier], "walk_symbolic_decisions": map[string]int{"quick": 3, "thorough": 4}[tier], "tree": "2 directories, 3 files, 1 symlink", "unreadable_directory": "MemFS only: acting user 1000, /w/ab mode 0311 (searchable, not listable), 2..3 pattern bytes below /w; the kernel witness runs under setfsuid", "outside": "longer patterns, larger trees, unreadable directories for WalkDir, BasePathFS.Glob (C10)"}
		},
		Trusted: []string{"the ports of Go 1.23's Glob and WalkDir algorithms in /verif/harness/sysx/refwalk.go, compared natively with filepath.Glob/WalkDir"},
	})
}
