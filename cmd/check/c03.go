package main

import "verif/engine"

func init() {
	reg(&property{
		ID: "C03",
		Groups: func(tier string, seed int) []group {
			cfg := engine.DefaultConfig()
			cfg.Budget = 8000000
			var cs []engine.Case
			for c := int64(0); c < 20; c++ {
				cs = append(cs, mkCase("", "c03", "HCall", cfg, c, 0))
				if tier == "thorough" {
					switch c {
					case 0, 1, 2, 3, 5, 6, 7, 9, 14, 17: // Stat, Lstat, OpenFile, ReadDir, Mkdir, MkdirAll, Create, Remove, Chmod, Truncate
						cs = append(cs, mkCase("", "c03", "HCall", cfg, c, 1))
					}
				}
			}
			return []group{{Tags: "", Pkgs: []string{"c03"}, Cases: cs}}
		},
		Reach:       []string{"call"},
		Explanation: "Differential bounded symbolic execution of MemFS' permission and ownership enforcement against posixref's discretionary access control: a tree /w/d (directory), /w/d/f (file), /w/e (second directory), optionally /w/d/s/g (depth 3), whose every node has a symbolic mode (9 permission bits, plus setgid and sticky for directories) and symbolic owner and group installed by the administrator; the acting user has a symbolic uid and gid (uid 0 included: the administrator is never refused), the umask is symbolic (9 bits); one call out of 20 templates (Stat, Lstat, OpenFile with symbolic access mode/O_TRUNC/O_APPEND, ReadDir, ReadFile, Mkdir, MkdirAll, Create, WriteFile, Remove, RemoveAll, Rename, Rename of a directory, Link, Symlink, Chmod, Chown, Chtimes, Truncate, Readlink). Asserted for every value: same allow/deny decision and errno as the model; objects created are owned by the caller (group of a setgid directory) with mode perm &^ umask. Natively every explored path is replayed against the kernel under the same fsuid/fsgid (no supplementary groups): a model/kernel disagreement is an ORACLE mismatch (exit 3).",
		Bounds: func(tier string) map[string]any {
			return map[string]any{"tree_depth": map[string]string{"quick": "2", "thorough": "2; 3 for Stat, Lstat, OpenFile, ReadDir, Mkdir, MkdirAll, Create, Remove, Chmod, Truncate"}[tier], "calls_per_history": 1, "truncate_size": "symbolic 0..2 (file length 1)", "ids": "0..60000 (symbolic; only their equalities matter)", "mode_bits": "0o777 files, 0o3777 directories", "outside": "ACLs, capabilities other than root, supplementary groups, setuid bits, depth > 3, histories"}
		},
		Trusted: []string{"posixref DAC model (/verif/harness/posix), cross-validated against the kernel (setfsuid/setfsgid) on every explored path"},
	})
}
