package main

import "verif/engine"

func init() {
	reg(&property{
		ID: "C13",
		Groups: func(tier string, seed int) []group {
			cfg := engine.DefaultConfig()
			tags := "avfs_setostype"
			maxN := int64(6)
			if tier == "thorough" {
				maxN = 9
			}
			var cs []engine.Case
			for n := int64(0); n <= maxN; n++ {
				cs = append(cs, mkCase(tags, "c13", "HCleanLinux", cfg, n))
			}
			return []group{{Tags: tags, Pkgs: []string{"c13"}, Cases: cs}}
		},
		Reach:       []string{"called"},
		Explanation: "Bounded symbolic execution of avfs' generic lexical path helpers (build tag avfs_setostype) against Go's own path/filepath executed symbolically in the same run; every byte of every input string is a symbolic 8-bit variable.",
		Bounds: func(tier string) map[string]any {
			if tier == "thorough" {
				return map[string]any{"string_length_linux": "0..9"}
			}
			return map[string]any{"string_length_linux": "0..6"}
		},
		Trusted: []string{"Go 1.23.5 path/filepath as oracle"},
	})
}
