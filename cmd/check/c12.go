package main

import "verif/engine"

func init() {
	reg(&property{
		ID: "C12",
		Groups: func(tier string, seed int) []group {
			cfg := engine.DefaultConfig()
			var cs []engine.Case
			seeds := []int64{1}
			if tier == "thorough" {
				seeds = []int64{1, 2, 3}
			}
			for kind := int64(0); kind <= 1; kind++ {
				for _, s := range seeds {
					for m := int64(0); m < 17; m++ {
						cs = append(cs, mkCase("", "c12", "HTransparentMut", cfg, kind, s, m, 0))
						if tier == "thorough" {
							cs = append(cs, mkCase("", "c12", "HTransparentMut", cfg, kind, s, m, 1))
						}
						cs = append(cs, mkCase("", "c12", "HInject", cfg, kind, s, m))
						cs = append(cs, mkCase("", "c12", "HReadOnly", cfg, kind, s, 0, m))
						cs = append(cs, mkCase("", "c12", "HReadOnly", cfg, kind, s, 1, m))
					}
					for m := int64(0); m < 10; m++ {
						cs = append(cs, mkCase("", "c12", "HTransparentRead", cfg, kind, s, m))
						cs = append(cs, mkCase("", "c12", "HInjectRead", cfg, kind, s, m))
					}
				}
			}
			for kind := int64(0); kind <= 1; kind++ {
				for st := int64(0); st < 4; st++ {
					for m := int64(0); m < 15; m++ {
						cs = append(cs, mkCase("", "c12", "HFile", cfg, kind, st, m, 0), mkCase("", "c12", "HFile", cfg, kind, st, m, 1))
					}
				}
			}
			return []group{{Tags: "", Pkgs: []string{"c12"}, Cases: cs}}
		},
		Reach:       []string{"transparent-mut", "transparent-read", "inject", "fault-fired", "readonly", "inject-read", "read-fault-fired", "file", "file-fault-fired"},
		Explanation: "Bounded symbolic execution of FailFS/FailFile over seeded MemFS/OrefaFS bases. Transparent case: every mutating (17) and read-only (10) call with fully symbolic scalars through FailFS (no failure function / a function that never fails) versus the same call on a twin base: same errno, same tree, handed-out files and Sub file systems still wrapped. Failing case: the failure function fails invocation i iff symbolic boolean fail#i (one fault per plan): primitives return exactly the injected error and the base snapshot (with modification times) is unchanged, composites (Create, WriteFile, MkdirTemp, CreateTemp) return an error; every call consults the function at least once; after a refused File method the handle answers Stat and Close like a twin handle that never received the call. Read-only plan: with failfs.ReadOnlyFunc no call, directly or through Sub or through returned files, changes the base.",
		Bounds: func(tier string) map[string]any {
			return map[string]any{"history": "1 call (+ Sub before it, + writes through returned files)", "faults_per_plan": 1, "operands": 5, "seed_trees": map[string]string{"quick": "1", "thorough": "1,2,3"}[tier], "scalars": "full range (Truncate size <= 8)", "outside": "longer histories; plans with several faults"}
		},
	})
}
