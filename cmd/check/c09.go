package main

import "verif/engine"

func init() {
	reg(&property{
		ID: "C09",
		Groups: func(tier string, seed int) []group {
			cfg := engine.DefaultConfig()
			var cs []engine.Case
			seeds := []int64{1, 3}
			if tier == "thorough" {
				seeds = []int64{1, 2, 3}
			}
			for kind := int64(0); kind <= 1; kind++ {
				for _, s := range seeds {
					for via := int64(0); via < 6; via++ {
						if tier == "quick" && via >= 3 && kind == 1 {
							continue
						}
						for m := int64(0); m < 17; m++ {
							cs = append(cs, mkCase("", "c09", "HMutate", cfg, kind, s, via, m))
						}
						for m := int64(0); m < 7; m++ {
							cs = append(cs, mkCase("", "c09", "HFile", cfg, kind, s, via, m))
						}
					}
					for m := int64(0); m < 10; m++ {
						cs = append(cs, mkCase("", "c09", "HRead", cfg, kind, s, m))
					}
				}
			}
			return []group{{Tags: "", Pkgs: []string{"c09"}, Cases: cs}}
		},
		Reach:       []string{"mutator", "file-mutator", "reader"},
		Explanation: "Bounded symbolic execution of every mutating VFS method (17) and File method (7) of RoFS over seeded MemFS/OrefaFS bases, called directly and through the file system returned by Sub, with fully symbolic flags, permissions, uid/gid, sizes and offsets; assertion: the snapshot of the whole base (tree, bytes, modes, owners, modification times; time.Now is a strictly increasing counter so every write is visible) is identical before and after, the error is permission-class, and anything handed out (files) cannot write either. Ten read-only calls are compared with the base's own answer.",
		Bounds: func(tier string) map[string]any {
			return map[string]any{"history": "1 call (+ Sub / Open before it, + write attempts on returned files)", "operands": "6 absolute + 6 relative (after Chdir through the view; second operand absolute or relative)", "seed_trees": map[string]string{"quick": "1,3", "thorough": "1,2,3"}[tier], "scalars": "full 64/32-bit range", "outside": "longer histories (the wrapper is stateless apart from forwarding Chdir/SetUMask/SetUser)"}
		},
	})
}
