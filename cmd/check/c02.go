package main

import "verif/engine"

func init() {
	reg(&property{
		ID: "C02",
		Groups: func(tier string, seed int) []group {
			cfg := engine.DefaultConfig()
			cfg.Budget = 8000000
			var cs []engine.Case
			for kind := int64(0); kind <= 1; kind++ {
				// len0, handles, history length
				cs = append(cs, mkCase("", "c02", "HOps", cfg, kind, 3, 1, 1), mkCase("", "c02", "HOps", cfg, kind, 0, 1, 1))
				// longer histories with fixed open flags and the core operation set
				if tier == "thorough" {
					for fi := int64(0); fi < 5; fi++ {
						cs = append(cs, mkCase("", "c02", "HOpsFixed", cfg, kind, 3, 1, 2, fi, 8), mkCase("", "c02", "HOpsFixed", cfg, kind, 2, 2, 2, fi, 4))
					}
				} else {
					cs = append(cs, mkCase("", "c02", "HOpsFixed", cfg, kind, 2, 1, 2, 0, 4), mkCase("", "c02", "HOpsFixed", cfg, kind, 2, 1, 2, 1, 4))
					// a read-only handle with all 8 core operations (Seek beyond the end, then Read / ReadAt)
					cs = append(cs, mkCase("", "c02", "HOpsFixed", cfg, kind, 2, 1, 2, 2, 8))
				}
				for e := int64(0); e <= 3; e++ {
					calls := int64(3)
					if tier == "thorough" {
						calls = 4
					}
					for mode := int64(0); mode <= 2; mode++ {
						cs = append(cs, mkCase("", "c02", "HDirRead", cfg, kind, e, calls, mode))
					}
				}
			}
			return []group{{Tags: "", Pkgs: []string{"c02"}, Cases: cs}}
		},
		Reach:       []string{"opened", "history-done", "dir-opened"},
		Explanation: "Differential bounded symbolic execution of MemFile/OrefaFile against posixref's os.File model (/verif/harness/posix): a file of len0 symbolic bytes, h handles opened with symbolic flags (access mode, O_APPEND, O_TRUNC, O_CREATE, O_EXCL), then a history of L operations chosen among Read(n), ReadAt(n,off), Write(m bytes), WriteAt(m bytes,off), Seek(off,whence), Truncate(size), Stat, Sync, Chmod, Chown, Close and path-level Truncate/Rename/Link/Remove, with full-range symbolic offsets/whence (growth bounded to 8 bytes); after every step the result (errno, count/offset, bytes) and the size and offset seen through every handle and the content seen through every path must equal the model for every value. Natively each path is replayed on *os.File on tmpfs and the model must agree with the kernel (ORACLE mismatch = exit 3). Directory handles: Readdirnames(n), ReadDir(n) and mixed sequences with symbolic n on directories of 0..3 entries: every entry exactly once, batches <= n, then io.EOF.",
		Bounds: func(tier string) map[string]any {
			if tier == "thorough" {
				return map[string]any{"file_len0": "0,2,3 symbolic bytes", "handles": "1..2", "history_length": "1 with symbolic flags (one handle); 2 with 5 fixed flag sets and the 8 core operations (4 core operations for two handles); two handles with symbolic flags did not finish within 15 min and are outside", "buffer_lengths": "0..3 (read), 0..2 (write)", "max_file_size_reached": 8, "dir_entries": "0..3", "dir_read_calls": 4, "outside": "longer histories, 3 handles, files larger than 8 bytes (CUT), access mode 3, directory seeks"}
			}
			return map[string]any{"file_len0": "0,3 symbolic bytes", "handles": 1, "history_length": "1 with symbolic flags and all 15 operations; 2 with 2 fixed flag sets (O_RDWR, O_RDWR|O_APPEND) and 4 core operations (Seek, Write, Truncate, path Truncate), and with O_RDONLY and the 8 core operations (+ Read, WriteAt, path Remove, ReadAt)", "buffer_lengths": "0..3 (read), 0..2 (write)", "max_file_size_reached": 8, "dir_entries": "0..3", "dir_read_calls": 3, "outside": "longer histories, several handles (thorough), files larger than 8 bytes (CUT), access mode 3, directory seeks"}
		},
		Trusted: []string{"posixref file model (/verif/harness/posix), cross-validated against *os.File on tmpfs on every explored path"},
	})
}
