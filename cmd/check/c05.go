package main

import "verif/engine"

func init() {
	reg(&property{
		ID: "C05",
		Groups: func(tier string, seed int) []group {
			cfg := engine.DefaultConfig()
			cfg.Budget = 8000000
			var cs []engine.Case
			for kind := int64(0); kind <= 1; kind++ {
				for s := int64(1); s <= 3; s++ {
					for op := int64(0); op < 12; op++ {
						cs = append(cs, mkCase("", "c05", "HInv", cfg, kind, s, op))
					}
				}
				if tier == "thorough" {
					for o1 := int64(0); o1 < 12; o1++ {
						for o2 := int64(0); o2 < 12; o2++ {
							cs = append(cs, mkCase("", "c05", "HInv2", cfg, kind, 2, o1, o2))
						}
					}
				}
			}
			return []group{{Tags: "", Pkgs: []string{"c05"}, Cases: cs}}
		},
		Reach:       []string{"inv"},
		Explanation: "Bounded symbolic execution of the namespace calls of MemFS and OrefaFS with operands biased to aliasing (the root, a directory and its descendant, identical operands, missing names, a name below a regular file) and symbolic scalars, from three seed trees; before and after every call the invariants are asserted through the public API only (no model): I1 the walk from the root terminates (node budget); I2 listings are sorted and duplicate-free and a name is listed iff Lstat succeeds; I3 the link count of every regular file equals the number of walked paths that are SameFile with it, and those paths agree on content, size, mode and owner; I4 a failed call (RemoveAll excepted) leaves every entry as it was; I5 a successful call changes only entries it names (or entries below them, or other names of the same file).",
		Bounds: func(tier string) map[string]any {
			return map[string]any{"history_length": map[string]string{"quick": "1", "thorough": "1, and 2 from seed S2 with a successful first call (any of the 12 templates) over all operands (fixed scalars); a failed first call leaves the tree unchanged (asserted) and is covered by length 1"}[tier], "seed_trees": "S1..S3", "operands": 9, "outside": "longer histories, Windows-typed instances (C17 compares them with Linux-typed ones), concurrent executions (C06 compares with sequential orders)"}
		},
	})
}
