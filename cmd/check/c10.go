package main

import "verif/engine"

func init() {
	reg(&property{
		ID: "C10",
		Groups: func(tier string, seed int) []group {
			cfg := engine.DefaultConfig()
			cfg.Budget = 8000000
			var cs []engine.Case
			maxN := int64(3)
			if tier == "thorough" {
				maxN = 4
			}
			for op := int64(0); op < 17; op++ {
				for abs := int64(0); abs <= 1; abs++ {
					for n := int64(0); n <= maxN; n++ {
						if n == 4 && (abs == 0 || op == 15) {
							continue // 4 symbolic bytes: absolute paths ("/" + 4 bytes); Glob with a 4-byte symbolic pattern does not finish (no verdict after 5 min on 8 workers)
						}
						cs = append(cs, mkCase("", "c10", "HCall", cfg, op, abs, n))
					}
				}
			}
			// WalkDir (operation 17): visits and the paths embedded in the errors given to the callback
			for abs := int64(0); abs <= 1; abs++ {
				for n := int64(0); n <= 2; n++ {
					cs = append(cs, mkCase("", "c10", "HCall", cfg, 17, abs, n))
				}
			}
			for n := int64(0); n <= maxN; n++ {
				cs = append(cs, mkCase("", "c10", "HNames", cfg, n))
			}
			for op := int64(0); op < 17; op++ {
				for n := int64(0); n <= 3; n++ {
					cs = append(cs, mkCase("", "c10", "HAfterChdir", cfg, op, n))
					if n <= 2 {
						for abs := int64(0); abs <= 1; abs++ {
							cs = append(cs, mkCase("", "c10", "HSpelling", cfg, op, abs, n, 1), mkCase("", "c10", "HSpelling", cfg, op, abs, n, 2))
						}
					}
				}
			}
			return []group{{Tags: "", Pkgs: []string{"c10"}, Cases: cs}}
		},
		Reach:       []string{"call", "names", "after-chdir", "spelling"},
		Explanation: "Bounded symbolic execution of BasePathFS (ToBasePath, FromBasePath, FromPathError, FromLinkError and the per-method forwarding) over a MemFS base with base directory B=/w/a: one of 17 operations (and WalkDir with up to 2 path bytes, visits and callback errors compared) with a path of n fully symbolic bytes (all values but NUL; absolute and relative variants, so '.', '..', repeated separators and B's own prefix are covered) is applied through the wrapper and, in lock-step, to a standalone MemFS whose root holds B's content. Asserted for every value: no panic; the observable state of everything outside B in the base is unchanged (confinement); errno, result and resulting tree equal the standalone file system's; no path returned or embedded in an error starts with B.",
		Bounds: func(tier string) map[string]any {
			return map[string]any{"symbolic_path_bytes": map[string]string{"quick": "3", "thorough": "4 for absolute paths of single calls except Glob (no verdict within 5 min), 3 otherwise"}[tier], "calls_per_history": "1, and Chdir followed by 1 call with a relative symbolic path", "outside": "longer paths and histories, symbolic links in the base, OrefaFS as base"}
		},
	})
}
