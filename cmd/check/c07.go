package main

import "verif/engine"

func init() {
	reg(&property{
		ID: "C07",
		Groups: func(tier string, seed int) []group {
			cfg := engine.DefaultConfig()
			cfg.Budget = 400000
			var cs []engine.Case
			for kind := int64(0); kind <= 4; kind++ {
				for m := int64(0); m < 43; m++ {
					cs = append(cs, mkCase("", "c07", "HVFS", cfg, kind, m))
				}
				for st := int64(0); st < 8; st++ {
					for m := int64(0); m < 17; m++ {
						cs = append(cs, mkCase("", "c07", "HFile", cfg, kind, st, m, 0))
						if tier == "thorough" || kind <= 1 {
							cs = append(cs, mkCase("", "c07", "HFile", cfg, kind, st, m, 1))
						}
					}
				}
			}
			// FailFS with one injected fault, a file larger than ReadFile's first read among the operands
			bcfg := cfg
			bcfg.Budget = 3000000
			for m := int64(0); m < 43; m++ {
				cs = append(cs, mkCase("", "c07", "HFaulty", bcfg, m))
			}
			// directory-handle histories interleaved with namespace changes
			hist := int64(4)
			if tier == "thorough" {
				hist = 5
			}
			for kind := int64(0); kind <= 4; kind++ {
				if kind <= 1 || tier == "thorough" {
					cs = append(cs, mkCase("", "c07", "HDirHist", cfg, kind, hist))
				}
			}
			maxN := int64(2)
			if tier == "thorough" {
				maxN = 3
			}
			for m := int64(0); m < 10; m++ {
				for n := int64(0); n <= maxN; n++ {
					cs = append(cs, mkCase("", "c07", "HIdm", cfg, m, n))
				}
			}
			// (b) schedules: two-goroutine programs of the C06 harness; the engine reports
			// a schedule in which no goroutine can run as a deadlock
			scfg := engine.DefaultConfig()
			scfg.Preempt = 2
			scfg.Budget = 6000000
			sops := []int64{0, 3, 4, 5, 7, 8, 10, 11, 12, 13}
			if tier == "thorough" {
				sops = allOps
			}
			sched := pairCases(scfg, []int64{0, 1}, sops)
			if tier == "thorough" {
				scfg3 := scfg
				scfg3.Preempt = 3
				sched = append(sched, pairCases(scfg3, []int64{0, 1}, core8)...)
			}
			return []group{{Tags: "", Pkgs: []string{"c07"}, Cases: cs}, {Tags: "", Pkgs: []string{"c06"}, Cases: sched}}
		},
		Reach:       []string{"vfs-call", "file-call", "idm-call", "concurrent", "faulty", "dir-history"},
		Explanation: "Bounded symbolic execution of every exported VFS method (43), File method (17) and MemIdm method (10) of MemFS, OrefaFS, RoFS, BasePathFS and FailFS with adversarial operands (root, directory and descendant, identical source and destination, empty, relative, unclean, missing, below-a-file, symlink) and fully symbolic integers (flags, modes, uid/gid, sizes, offsets, whence, counts); assertion: the call returns without panic; a single-thread deadlock (re-locking a held mutex) and a path exceeding the instruction budget are reported by the engine; probe calls after each call detect locks left held. Directory handles additionally go through bounded histories of ReadDir/Readdirnames with symbolic counts interleaved with calls that add or remove entries of the open directory. (b) Schedules: the two-goroutine programs of the C06 harness (pairs of namespace calls on one shared tree) under every interleaving at lock granularity within the pre-emption bound: a state in which every live goroutine waits for a lock is reported as a deadlock.",
		Bounds: func(tier string) map[string]any {
			return map[string]any{"calls_per_history": "1 call (+ optional Seek before File methods) + probe calls; directory handles: histories of " + map[string]string{"quick": "4", "thorough": "5"}[tier] + " steps from {ReadDir(n), Readdirnames(n), add entries, remove entries}, n in -1..3", "operand_universe": 14, "handle_states": 8, "buffer_lengths": "0..2", "idm_name_length": map[string]int{"quick": 2, "thorough": 3}[tier], "instruction_budget": 400000,
				"outside": "longer histories; allocations above 64 elements with symbolic size (CUT); concurrent schedules (C06/C08 harnesses)"}
		},
		Assumptions: []string{"os.nextRandom stub: one decimal digit in {0,1}"},
	})
}
