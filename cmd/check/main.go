// Command check is the per-property check driver: it loads /repo's current
// source into the symbolic executor, explores the registered harness cases,
// cross-validates every explored path against the natively compiled real code,
// matches violations against known_findings.json and writes the evidence file.
//
//	check <ID> quick|thorough
//	check replay <file>
//
// Exit 0: property held on everything explored (KNOWN-FINDING lines allowed).
// Exit 1: VIOLATION property=<id> replay=<path> (natively reproduced, unlisted).
// Exit 3: inconclusive (UNSUPPORTED / solver unknown / engine-native mismatch / vacuous).
package main

import (
	"bufio"
	"bytes"
	"crypto/sha1"
	"encoding/json"
	"fmt"
	"os"
	"os/exec"
	"path/filepath"
	"sort"
	"strconv"
	"strings"
	"sync"
	"time"

	"verif/engine"
)

const (
	verifDir   = "/verif"
	repoDir    = "/repo"
	harnessDir = "/verif/harness"
	workDir    = "/verif/work"
)

type nativeRec struct {
	ID     int               `json:"id"`
	Func   string            `json:"func"`
	Args   []int64           `json:"args"`
	Values map[string]uint64 `json:"values"`
}

type nativeOut struct {
	ID     int      `json:"id"`
	Status string   `json:"status"`
	Panic  string   `json:"panic,omitempty"`
	Site   string   `json:"site,omitempty"`
	Label  string   `json:"label,omitempty"`
	Obs    []string `json:"obs,omitempty"`
	Fails  []string `json:"fails,omitempty"`
	Reach  []string `json:"reach,omitempty"`
}

type finding struct {
	Property    string `json:"property"`
	Signature   string `json:"signature"`
	Status      string `json:"status"` // known | fixed
	Commit      string `json:"commit,omitempty"`
	Description string `json:"description"`
	Witness     string `json:"witness,omitempty"`
}

type violation struct {
	Sig          string
	Case         *engine.Case
	Values       map[string]uint64
	Inputs       []engine.InputDecl
	Kind         string // assert | panic | deadlock | budget | race | gopanic
	Detail       string
	Native       string // confirmed | unconfirmed:<why> | skipped:<why>
	Replay       string
	Threads      int
	NoNativeStub bool // depends on a stubbed environment value (random name): not replayable natively
}

func main() {
	if len(os.Args) >= 3 && os.Args[1] == "replay" {
		os.Exit(replay(os.Args[2]))
	}
	if len(os.Args) < 3 {
		fmt.Fprintln(os.Stderr, "usage: check <ID> quick|thorough | check replay <file>")
		os.Exit(2)
	}
	id, tier := os.Args[1], os.Args[2]
	if tier != "quick" && tier != "thorough" {
		fmt.Fprintln(os.Stderr, "tier must be quick or thorough")
		os.Exit(2)
	}
	p := properties[id]
	if p == nil {
		fmt.Fprintln(os.Stderr, "unknown property", id)
		os.Exit(2)
	}
	// second solver: cvc5 answers every n-th query as well (VERIF_CROSS=off disables)
	engine.CrossKind = "cvc5"
	engine.CrossEvery = map[string]int{"quick": 32, "thorough": 8}[tier]
	if s := os.Getenv("VERIF_CROSS"); s != "" {
		engine.CrossKind = s
		if s == "off" {
			engine.CrossKind = ""
		}
	}
	if s := os.Getenv("VERIF_CROSS_EVERY"); s != "" {
		engine.CrossEvery, _ = strconv.Atoi(s)
	}
	seed := 0
	if s := os.Getenv("VERIF_SEED"); s != "" {
		seed, _ = strconv.Atoi(s)
	}
	os.Exit(runCheck(p, tier, seed))
}

func crossDesc() string {
	if engine.CrossKind == "" {
		return ""
	}
	return fmt.Sprintf("; every %d-th query of each worker also answered by %s --incremental (1.0.x) and the verdicts compared", engine.CrossEvery, engine.CrossKind)
}

func glob(pat, s string) bool {
	// '*' matches any run of characters except '|'
	pp := strings.Split(pat, "|")
	ss := strings.Split(s, "|")
	if len(pp) != len(ss) {
		return false
	}
	for i := range pp {
		if ok, _ := filepath.Match(pp[i], ss[i]); !ok && pp[i] != ss[i] {
			return false
		}
	}
	return true
}

func loadFindings() []finding {
	b, err := os.ReadFile(filepath.Join(verifDir, "known_findings.json"))
	if err != nil {
		return nil
	}
	var fs []finding
	if err := json.Unmarshal(b, &fs); err != nil {
		fmt.Fprintln(os.Stderr, "known_findings.json:", err)
		os.Exit(3)
	}
	return fs
}

// group is one (package set, tags) load: harnesses sharing one SSA program and one native binary.
type group struct {
	Tags  string
	Pkgs  []string // harness package suffixes
	Cases []engine.Case
}

type property struct {
	ID          string
	Groups      func(tier string, seed int) []group
	Reach       []string // labels that must be reached (vacuity)
	Explanation string
	Bounds      func(tier string) map[string]any
	Assumptions []string
	Trusted     []string
	NoNative    bool
	IgnoreKinds map[string]bool // path kinds that belong to another property's claim (counted, not reported)
}

func runCheck(p *property, tier string, seed int) int {
	t0 := time.Now()
	os.MkdirAll(workDir, 0o755)
	os.MkdirAll(filepath.Join(verifDir, "evidence"), 0o755)
	os.MkdirAll(filepath.Join(verifDir, "replays"), 0o755)
	ov, repl, err := engine.OverlayFromDir(filepath.Join(verifDir, "overlay"), repoDir)
	if err != nil {
		fmt.Fprintln(os.Stderr, "overlay:", err)
		return 3
	}
	ovJSON := filepath.Join(workDir, "overlay-"+p.ID+".json")
	engine.WriteOverlayJSON(ovJSON, repl)

	groups := p.Groups(tier, seed)
	var (
		mu          sync.Mutex
		kinds       = map[string]int{}
		obligations int
		discharged  int
		concreteObl int
		inconcl     []string
		viols       []*violation
		reach       = map[string]bool{}
		samples     []any
		cutReasons  = map[string]int{}
		totalPaths  int
		distinctSig = map[string]bool{}
		validated   int
		mismatches  []string
		stats       engine.Stats
		entered     = map[string][]string{}
		lenientLog  = map[string]int{}
		caseCount   int
		loadTime    float64
		nativeSkip  int
		foreign     int
	)
	for gi, g := range groups {
		caseCount += len(g.Cases)
		pats := make([]string, len(g.Pkgs))
		for i, s := range g.Pkgs {
			pats[i] = "verif/harness/" + s
		}
		w, err := engine.Load(engine.LoadConfig{Dir: harnessDir, Patterns: pats, Tags: g.Tags, Overlay: ov})
		if err != nil {
			fmt.Fprintln(os.Stderr, "load:", err)
			fmt.Println("INCONCLUSIVE: cannot load /repo's current source into the engine (does it compile?)")
			return 3
		}
		loadTime += w.LoadTime.Seconds()
		// native binary built concurrently with the exploration
		nativeBin := filepath.Join(workDir, fmt.Sprintf("native-%s-%d-%d", p.ID, gi, os.Getpid()))
		nbErr := make(chan error, 1)
		go func() { nbErr <- buildNative(nativeBin, g.Tags, ovJSON) }()

		caseByName := map[string]*engine.Case{}
		for i := range g.Cases {
			caseByName[g.Cases[i].Name] = &g.Cases[i]
		}
		var recs []nativeRec
		type expect struct {
			kind string // path | assert
			res  *engine.PathResult
			sig  string
			viol *violation
		}
		var expects []expect
		ex := engine.NewExplorer(w, workers())
		ex.OnResult = func(r engine.PathResult) {
			mu.Lock()
			defer mu.Unlock()
			kinds[r.Kind]++
			totalPaths++
			for _, l := range r.Reach {
				reach[l] = true
			}
			for _, c := range r.Cuts {
				cutReasons[c]++
			}
			c := caseByName[r.Case]
			rr := r
			switch r.Kind {
			case "UNSUPPORTED", "INCONCLUSIVE", "ENGINE":
				if len(inconcl) < 20 {
					inconcl = append(inconcl, r.Case+": "+r.Kind+": "+firstLine(r.Reason))
				} else {
					inconcl = append(inconcl[:20], "...")
				}
			case "PANIC", "GOPANIC":
				v := &violation{Sig: p.ID + "|" + r.Label + "|panic|" + r.PanicCls + "|" + r.PanicSite, Case: c, Values: r.Model, Inputs: r.Inputs, Kind: "panic", Detail: r.Reason, Threads: r.Threads}
				viols = append(viols, v)
			case "DEADLOCK":
				if p.IgnoreKinds["DEADLOCK"] {
					foreign++
					break
				}
				v := &violation{Sig: p.ID + "|" + r.Label + "|deadlock", Case: c, Values: r.Model, Inputs: r.Inputs, Kind: "deadlock", Detail: r.Reason, Threads: r.Threads}
				viols = append(viols, v)
			case "BUDGET":
				v := &violation{Sig: p.ID + "|" + r.Label + "|no-return-within-budget", Case: c, Values: r.Model, Inputs: r.Inputs, Kind: "budget", Detail: r.Reason, Threads: r.Threads}
				viols = append(viols, v)
			case "RACE", "FATAL":
				v := &violation{Sig: p.ID + "|" + r.Label + "|" + strings.ToLower(r.Kind), Case: c, Values: r.Model, Inputs: r.Inputs, Kind: strings.ToLower(r.Kind), Detail: r.Reason, Threads: r.Threads}
				viols = append(viols, v)
			}
			for _, a := range r.Asserts {
				obligations++
				if a.Concrete {
					concreteObl++
				}
				switch a.Verdict {
				case 0:
					discharged++
				case 1:
					if !strings.HasPrefix(a.Sig, p.ID+"|") && !strings.HasPrefix(a.Sig, "SELFTEST|") {
						// an assertion of another property's harness reused by this check
						// (e.g. C07 runs the C06 programs for deadlocks only): not this check's claim
						foreign++
						continue
					}
					v := &violation{Sig: a.Sig, Case: c, Values: a.Model, Inputs: a.Inputs, Kind: "assert", Threads: r.Threads, NoNativeStub: r.NoNative}
					viols = append(viols, v)
					if r.Threads <= 1 && !p.NoNative && !r.NoNative && c != nil {
						recs = append(recs, nativeRec{ID: len(recs), Func: c.Pkg[len("verif/harness/"):] + "." + c.Func, Args: c.Args, Values: a.Model})
						expects = append(expects, expect{kind: "assert", sig: a.Sig, viol: v})
					}
				default:
					if len(inconcl) < 20 {
						inconcl = append(inconcl, r.Case+": solver unknown on assertion "+a.Sig)
					}
				}
			}
			// distinct non-trivial: distinct (case, outcome kind, observation list, assertion verdicts) classes with at least one symbolic decision
			if r.Decisions > 0 {
				h := sha1.Sum([]byte(r.Case + r.Kind + strings.Join(r.Obs, ";") + fmt.Sprint(len(r.Asserts))))
				distinctSig[string(h[:8])] = true
			}
			if len(samples) < 6 && (r.Model != nil || len(r.Inputs) == 0) && (r.Kind == "OK" || r.Kind == "ASSERTFAIL") {
				wi := any(r.Model)
				if r.Model == nil {
					wi = map[string]uint64{} // no symbolic scalar on this path: the decisions are schedule / enumeration choices
				}
				samples = append(samples, map[string]any{"case": r.Case, "path_kind": r.Kind, "witness_inputs": wi, "observed": r.Obs, "assertions_on_path": len(r.Asserts), "decisions": r.Decisions, "threads": r.Threads})
			}
			// native cross-validation record for the path itself
			if c != nil && !p.NoNative && r.Threads <= 1 && !r.NoNative {
				switch r.Kind {
				case "OK", "PANIC", "DEADLOCK", "ASSERTFAIL", "BUDGET":
					if r.Model != nil || len(r.Inputs) == 0 {
						recs = append(recs, nativeRec{ID: len(recs), Func: c.Pkg[len("verif/harness/"):] + "." + c.Func, Args: c.Args, Values: r.Model})
						expects = append(expects, expect{kind: "path", res: &rr})
					}
				}
			} else if c != nil && (r.Threads > 1 || r.NoNative) {
				nativeSkip++
			}
		}
		ex.Deadline = t0.Add(deadline(tier))
		ex.Run(g.Cases)
		if ex.Dropped > 0 {
			inconcl = append(inconcl, fmt.Sprintf("deadline of %s reached: %d path prefixes left unexplored", deadline(tier), ex.Dropped))
		}
		stats.Paths += ex.Stats.Paths
		stats.Queries += ex.Stats.Queries
		stats.Unknown += ex.Stats.Unknown
		stats.SolverErrors += ex.Stats.SolverErrors
		stats.CrossChecked += ex.Stats.CrossChecked
		stats.CrossUnknown += ex.Stats.CrossUnknown
		stats.CrossDiffer += ex.Stats.CrossDiffer
		stats.CrossTime += ex.Stats.CrossTime
		stats.SolverTime += ex.Stats.SolverTime
		stats.Steps += ex.Stats.Steps
		for k, v := range ex.Entered() {
			entered[k] = append(entered[k], v...)
		}
		for k, v := range ex.Lenient() {
			lenientLog[k] += v
		}
		if err := <-nbErr; err != nil {
			fmt.Fprintln(os.Stderr, "native build:", err)
			fmt.Println("INCONCLUSIVE: native replay binary does not build")
			return 3
		}
		// run native cross-validation
		outs := runNative(nativeBin, recs)
		for i, e := range expects {
			o, ok := outs[i]
			if !ok {
				mismatches = append(mismatches, fmt.Sprintf("record %d: no native result", i))
				continue
			}
			switch e.kind {
			case "assert":
				if o.Status == "ASSERTFAIL" && len(o.Fails) > 0 && o.Fails[0] == e.sig {
					e.viol.Native = "confirmed"
				} else {
					e.viol.Native = fmt.Sprintf("unconfirmed: native status %s fails %v", o.Status, o.Fails)
				}
			case "path":
				if m := comparePath(e.res, o); m != "" {
					mismatches = append(mismatches, e.res.Case+": "+m+" inputs="+fmt.Sprint(e.res.Model))
				} else {
					validated++
				}
			}
		}
		// engine-level violations (panic/deadlock/budget) are confirmed through their path record
		for _, v := range viols {
			if v.Kind != "assert" && v.Native == "" {
				if v.Threads > 1 || p.NoNative || v.NoNativeStub {
					v.Native = "skipped: concurrent schedule (replayed deterministically in the interpreter only)"
				} else {
					v.Native = "confirmed" // comparePath verified the same outcome natively (a mismatch is listed above)
				}
			}
			if v.Kind == "assert" && v.Native == "" {
				v.Native = "skipped: concurrent schedule or stubbed random value (decided in the interpreter only)"
			}
		}
		os.Remove(nativeBin)
	}

	// vacuity
	var vac []string
	for _, l := range p.Reach {
		if !reach[l] {
			vac = append(vac, l)
		}
	}

	// classify violations
	findings := loadFindings()
	knownHit := map[int]int{}
	var fresh []*violation
	freshBySig := map[string]*violation{}
	unconfirmed := 0
	for _, v := range viols {
		if strings.HasPrefix(v.Native, "unconfirmed") {
			unconfirmed++
			if len(mismatches) < 40 {
				mismatches = append(mismatches, "violation not reproduced natively: "+v.Sig+" "+v.Native+" inputs="+fmt.Sprint(v.Values))
			}
			continue
		}
		matched := false
		for i, f := range findings {
			if f.Property == p.ID && f.Status == "known" && glob(f.Signature, v.Sig) {
				knownHit[i]++
				matched = true
				break
			}
		}
		if matched {
			continue
		}
		if _, ok := freshBySig[v.Sig]; !ok {
			freshBySig[v.Sig] = v
			fresh = append(fresh, v)
		}
	}
	for i, f := range findings {
		if knownHit[i] > 0 {
			fmt.Printf("KNOWN-FINDING: property=%s %s [%s] (%d witnesses)\n", p.ID, f.Description, f.Signature, knownHit[i])
		}
	}
	sort.Slice(fresh, func(i, j int) bool { return fresh[i].Sig < fresh[j].Sig })
	for _, v := range fresh {
		v.Replay = writeReplay(p.ID, v)
		fmt.Printf("VIOLATION property=%s replay=%s\n", p.ID, v.Replay)
		fmt.Printf("  signature: %s\n  case: %s inputs: %s %s native: %s\n", v.Sig, v.Case.Name, fmtValues(v.Values), v.Detail, v.Native)
	}

	exit := 0
	if len(fresh) > 0 {
		exit = 1
	}
	if stats.CrossDiffer > 0 {
		inconcl = append(inconcl, fmt.Sprintf("%d queries on which z3 and %s disagree (sat vs unsat)", stats.CrossDiffer, engine.CrossKind))
	}
	if len(inconcl) > 0 || len(mismatches) > 0 || len(vac) > 0 || stats.SolverErrors > 0 {
		for _, s := range inconcl {
			fmt.Println("INCONCLUSIVE:", s)
		}
		for _, s := range mismatches {
			fmt.Println("ENGINE-MISMATCH:", s)
		}
		for _, s := range vac {
			fmt.Println("VACUOUS: reach label never reached:", s)
		}
		if exit == 0 {
			exit = 3
		}
	}

	// evidence
	var fnCount int
	fnByPkg := map[string]int{}
	var avfsFns []string
	for pk, fs := range entered {
		seen := map[string]bool{}
		for _, f := range fs {
			if !seen[f] {
				seen[f] = true
				fnByPkg[pk]++
				fnCount++
				if strings.HasPrefix(pk, "github.com/avfs/avfs") {
					avfsFns = append(avfsFns, f)
				}
			}
		}
	}
	sort.Strings(avfsFns)
	var knownList []string
	for i, f := range findings {
		if knownHit[i] > 0 {
			knownList = append(knownList, f.Signature)
		}
	}
	nViol := len(fresh)
	cov := map[string]any{
		"explanation":                    p.Explanation + " Decided by: for every explored path the query (path-condition AND NOT assertion) is sent to z3 over QF_BV; unsat on every path = holds for every value of the symbolic inputs within the bounds below; sat = counterexample, replayed natively before being reported.",
		"evaluations":                    totalPaths,
		"distinct_nontrivial":            len(distinctSig),
		"rule":                           "one evaluation = one explored path (one class of inputs sharing all branch decisions of the real code); distinct non-trivial = distinct (case, outcome, observation vector) classes among paths with at least one solver-decided branch",
		"samples":                        samples,
		"obligations":                    obligations,
		"discharged":                     discharged,
		"obligations_decided_concretely": concreteObl,
		"traces_validated_against_impl":  validated,
		"paths_not_natively_validated":   nativeSkip,
		"checker_cmd":                    "z3 -in (4.8.12), one persistent process per worker" + crossDesc(),
		"cross_solver_queries_agreeing":  stats.CrossChecked,
		"cross_solver_no_verdict":        stats.CrossUnknown,
		"cross_solver_disagreements":     stats.CrossDiffer,
		"cross_solver_time_s":            round2(stats.CrossTime.Seconds()),
		"trusted_base":                   append([]string{"symgo SSA interpreter (/verif/engine), cross-validated natively on every explored sequential path", "go/ssa v0.29.0", "z3 4.8.12"}, p.Trusted...),
		"harness_cases":                  caseCount,
		"path_kinds":                     kinds,
		"cut_paths_outside_claim":        cutReasons,
		"solver_queries":                 stats.Queries,
		"solver_unknown":                 stats.Unknown,
		"solver_time_s":                  round2(stats.SolverTime.Seconds()),
		"interpreted_ssa_instructions":   stats.Steps,
		"functions_encoded_total":        fnCount,
		"functions_encoded_by_package":   fnByPkg,
		"avfs_functions_encoded":         avfsFns,
		"load_and_ssa_build_s":           round2(loadTime),
		"bounds":                         p.Bounds(tier),
		"known_findings_matched":         knownList,
		"inconclusive":                   inconcl,
		"engine_native_mismatches":       len(mismatches),
		"reach_labels":                   keys(reach),
		"std_init_lenient_calls":         lenientLog,
		"intrinsics":                     sortedStrings(engine.IntrinsicNames()),
		"exhaustive":                     false,
	}
	ev := map[string]any{
		"property_id": p.ID,
		"tier":        tier,
		"seed":        seed,
		"level":       "other",
		"coverage":    cov,
		"assumptions": append([]string{
			"bounded claim: holds only for the input sizes / history lengths / thread counts in coverage.bounds; paths counted under cut_paths_outside_claim are outside the claim",
			"environment stubs: time.Now = strictly increasing counter; syscall.Umask = process cell (022); fmt.* = opaque; sync primitives modelled (Go writer-preferring RWMutex)",
		}, p.Assumptions...),
		"wall_s":     round2(time.Since(t0).Seconds()),
		"violations": nViol,
	}
	b, _ := json.MarshalIndent(ev, "", " ")
	os.WriteFile(filepath.Join(verifDir, "evidence", p.ID+".json"), b, 0o644)
	fmt.Printf("%s %s: paths=%d obligations=%d discharged=%d known=%d new=%d validated-natively=%d queries=%d solver=%.1fs wall=%.1fs kinds=%v exit=%d\n",
		p.ID, tier, totalPaths, obligations, discharged, len(knownList), nViol, validated, stats.Queries, stats.SolverTime.Seconds(), time.Since(t0).Seconds(), kinds, exit)
	return exit
}

// deadline is the wall-clock budget of one check run; what is left unexplored
// when it expires makes the run inconclusive (never a pass).
func deadline(tier string) time.Duration {
	if s := os.Getenv("VERIF_DEADLINE_S"); s != "" {
		if n, err := strconv.Atoi(s); err == nil && n > 0 {
			return time.Duration(n) * time.Second
		}
	}
	if tier == "thorough" {
		return 90 * time.Minute
	}
	return 12 * time.Minute
}

func workers() int {
	if s := os.Getenv("VERIF_WORKERS"); s != "" {
		if n, err := strconv.Atoi(s); err == nil && n > 0 {
			return n
		}
	}
	return 16
}

func round2(f float64) float64 { return float64(int(f*100)) / 100 }

func keys(m map[string]bool) []string {
	var r []string
	for k := range m {
		r = append(r, k)
	}
	sort.Strings(r)
	return r
}

func sortedStrings(s []string) []string { sort.Strings(s); return s }

func firstLine(s string) string {
	if i := strings.IndexByte(s, '\n'); i >= 0 {
		return s[:i]
	}
	return s
}

func fmtValues(m map[string]uint64) string {
	var ks []string
	for k := range m {
		ks = append(ks, k)
	}
	sort.Strings(ks)
	var sb strings.Builder
	for _, k := range ks {
		fmt.Fprintf(&sb, "%s=%d ", k, int64(m[k]))
	}
	return sb.String()
}

func comparePath(r *engine.PathResult, o nativeOut) string {
	switch r.Kind {
	case "OK":
		if o.Status != "OK" {
			return fmt.Sprintf("engine path OK, native %s %s %v", o.Status, o.Panic, o.Fails)
		}
	case "ASSERTFAIL":
		if o.Status != "ASSERTFAIL" || len(o.Fails) == 0 || o.Fails[0] != r.Reason {
			return fmt.Sprintf("engine ASSERTFAIL %s, native %s %v", r.Reason, o.Status, o.Fails)
		}
		return ""
	case "PANIC":
		if o.Status != "PANIC" || o.Panic != r.PanicCls {
			return fmt.Sprintf("engine PANIC %s@%s, native %s %s@%s", r.PanicCls, r.PanicSite, o.Status, o.Panic, o.Site)
		}
		return ""
	case "DEADLOCK", "BUDGET":
		if o.Status != "HANG" {
			return fmt.Sprintf("engine %s, native %s", r.Kind, o.Status)
		}
		return ""
	}
	if len(r.Obs) != len(o.Obs) {
		return fmt.Sprintf("observation count differs: engine %v native %v", r.Obs, o.Obs)
	}
	for i := range r.Obs {
		if r.Obs[i] != o.Obs[i] {
			return fmt.Sprintf("observation %d differs: engine %s native %s", i, r.Obs[i], o.Obs[i])
		}
	}
	return ""
}

func buildNative(out, tags, ovJSON string) error {
	args := []string{"build", "-o", out, "-overlay", ovJSON}
	if tags != "" {
		args = append(args, "-tags", tags)
	}
	args = append(args, "./cmd/native")
	cmd := exec.Command("go", args...)
	cmd.Dir = harnessDir
	cmd.Env = append(os.Environ(), "GOFLAGS=-mod=mod", "GOPROXY=off", "GOSUMDB=off", "GOTOOLCHAIN=local")
	var eb bytes.Buffer
	cmd.Stderr = &eb
	if err := cmd.Run(); err != nil {
		return fmt.Errorf("%v: %s", err, eb.String())
	}
	return nil
}

// runNative feeds the records to the native binary, restarting it after a HANG.
func runNative(bin string, recs []nativeRec) map[int]nativeOut {
	res := map[int]nativeOut{}
	start := 0
	for start < len(recs) {
		cmd := exec.Command(bin)
		cmd.Env = append(os.Environ(), "TMPDIR=/dev/shm")
		in, _ := cmd.StdinPipe()
		outp, _ := cmd.StdoutPipe()
		cmd.Stderr = os.Stderr
		if err := cmd.Start(); err != nil {
			fmt.Fprintln(os.Stderr, "native start:", err)
			return res
		}
		go func(from int) {
			w := bufio.NewWriterSize(in, 1<<20)
			enc := json.NewEncoder(w)
			for i := from; i < len(recs); i++ {
				if enc.Encode(recs[i]) != nil {
					break
				}
			}
			w.Flush()
			in.Close()
		}(start)
		sc := bufio.NewScanner(outp)
		sc.Buffer(make([]byte, 1<<20), 1<<26)
		last := start - 1
		for sc.Scan() {
			var o nativeOut
			if json.Unmarshal(sc.Bytes(), &o) == nil {
				res[o.ID] = o
				if o.ID > last {
					last = o.ID
				}
			}
		}
		cmd.Wait()
		if last+1 <= start {
			// no progress: the record crashed the process (fatal error); mark and skip it
			res[start] = nativeOut{ID: start, Status: "CRASH"}
			last = start
		}
		start = last + 1
	}
	return res
}

type replayFile struct {
	Property  string            `json:"property"`
	Signature string            `json:"signature"`
	Kind      string            `json:"kind"`
	Detail    string            `json:"detail,omitempty"`
	Harness   string            `json:"harness"`
	Args      []int64           `json:"args"`
	Tags      string            `json:"tags"`
	Values    map[string]uint64 `json:"values"`
	Native    string            `json:"native"`
}

func writeReplay(id string, v *violation) string {
	rf := replayFile{Property: id, Signature: v.Sig, Kind: v.Kind, Detail: v.Detail, Harness: v.Case.Pkg[len("verif/harness/"):] + "." + v.Case.Func, Args: v.Case.Args, Values: v.Values, Native: v.Native, Tags: caseTags[v.Case.Name]}
	b, _ := json.MarshalIndent(rf, "", " ")
	h := sha1.Sum([]byte(v.Sig))
	path := filepath.Join(verifDir, "replays", fmt.Sprintf("%s-%x.json", id, h[:6]))
	os.WriteFile(path, b, 0o644)
	return path
}

var caseTags = map[string]string{}

func replay(path string) int {
	b, err := os.ReadFile(path)
	if err != nil {
		fmt.Fprintln(os.Stderr, err)
		return 2
	}
	var rf replayFile
	if err := json.Unmarshal(b, &rf); err != nil {
		fmt.Fprintln(os.Stderr, err)
		return 2
	}
	os.MkdirAll(workDir, 0o755)
	_, repl, _ := engine.OverlayFromDir(filepath.Join(verifDir, "overlay"), repoDir)
	ovJSON := filepath.Join(workDir, "overlay-replay.json")
	engine.WriteOverlayJSON(ovJSON, repl)
	bin := filepath.Join(workDir, "native-replay")
	if err := buildNative(bin, rf.Tags, ovJSON); err != nil {
		fmt.Fprintln(os.Stderr, err)
		return 3
	}
	defer os.Remove(bin)
	i := strings.LastIndex(rf.Harness, ".")
	_ = i
	outs := runNative(bin, []nativeRec{{ID: 0, Func: rf.Harness, Args: rf.Args, Values: rf.Values}})
	o := outs[0]
	fmt.Printf("replay %s: harness=%s inputs=%s\nnative status=%s panic=%s site=%s fails=%v obs=%v\n", rf.Signature, rf.Harness, fmtValues(rf.Values), o.Status, o.Panic, o.Site, o.Fails, o.Obs)
	if o.Status == "OK" {
		fmt.Println("NOT REPRODUCED")
		return 0
	}
	fmt.Println("REPRODUCED")
	return 1
}
