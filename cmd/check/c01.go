package main

import "verif/engine"

func init() {
	reg(&property{
		ID: "C01",
		Groups: func(tier string, seed int) []group {
			cfg := engine.DefaultConfig()
			var cs []engine.Case
			for kind := int64(0); kind <= 1; kind++ {
				for s := int64(0); s <= 4; s++ {
					for t := int64(0); t < 15; t++ {
						cs = append(cs, mkCase("", "c01", "HStep", cfg, kind, s, t))
					}
				}
				// relative operands after Chdir
				for s := int64(1); s <= 4; s++ {
					for t := int64(0); t < 15; t++ {
						cs = append(cs, mkCase("", "c01", "HRel", cfg, kind, s, t))
					}
				}
				for t := int64(0); t < 15; t++ {
					switch t {
					case 0, 2, 4, 6, 9: // Mkdir, OpenFile, Remove, Rename, Truncate
						maxN := int64(3)
						if tier == "thorough" {
							maxN = 5
						}
						for n := int64(1); n <= maxN; n++ {
							cs = append(cs, mkCase("", "c01", "HUnclean", cfg, kind, t, n))
						}
					}
				}
				cs = append(cs, mkCase("", "c01", "HTemp", cfg, kind, 0), mkCase("", "c01", "HTemp", cfg, kind, 1))
				if tier == "thorough" {
					// two-step histories: first step from the mutating templates
					for _, t1 := range []int64{0, 2, 4, 6, 7, 8, 9} {
						for t2 := int64(0); t2 < 15; t2++ {
							cs = append(cs, mkCase("", "c01", "HStep2", cfg, kind, 1, t1, t2))
							if kind == 0 {
								// the seed tree with symbolic links (MemFS only)
								cs = append(cs, mkCase("", "c01", "HStep2", cfg, kind, 3, t1, t2))
							}
						}
					}
				}
			}
			return []group{{Tags: "", Pkgs: []string{"c01"}, Cases: cs}}
		},
		Reach:       []string{"step", "unclean", "temp", "relative"},
		Explanation: "Differential bounded symbolic execution: every namespace call template (Mkdir, MkdirAll, OpenFile with symbolic flags/perm and optional write, WriteFile, Remove, RemoveAll, Rename, Link, Symlink, Truncate, Chmod, Chown, Lchown, Chtimes, Stat) of MemFS and OrefaFS (Linux emulation, administrator) is executed symbolically in the same run as posixref, a reference model of package os on Linux (/verif/harness/posix); operands range over a 9-path depth-2 universe built on four seed trees, scalars are symbolic; after the call the errno and the whole observable tree (type, permission bits, owner, size, content, link count, link target, directory listings of every universe path) must be equal for every value of the symbolic inputs. Natively every explored path is replayed on MemFS/OrefaFS, on the model and on the real kernel (package os on a tmpfs scratch directory): a model/kernel disagreement is an ORACLE mismatch (exit 3), never a violation. Also: unclean path == Clean(path) on twin instances with n symbolic bytes; CreateTemp/MkdirTemp under the symbolic random-name stub.",
		Bounds: func(tier string) map[string]any {
			b := map[string]any{"history_length": 1, "seed_trees": "S0..S4", "universe_paths": 9, "flag_bits": "O_ACCMODE|O_CREATE|O_EXCL|O_TRUNC|O_APPEND (access mode 3 excluded)", "perm_bits": "0o777 for creation, 0o7777 for Chmod", "uid_gid": "-1..70000", "truncate_size": "-2..4", "unclean_symbolic_bytes": 3,
				"relative_operands": "after Chdir to /w or /w/a: 9 relative spellings (plain, ../x, ., .., empty, ./x, x/../y), one relative operand per call", "outside": "longer histories, deeper trees, flag bits outside the mask, O_SYNC, non-administrator users (C03)"}
			if tier == "thorough" {
				b["history_length"] = "1, and 2 from seed S1 (MemFS also S3, the tree with symbolic links) with a successful first step in {Mkdir 0750, OpenFile O_WRONLY|O_CREATE|O_TRUNC 0640 writing one byte, Remove, Rename, Link, Symlink, Truncate to 1} over all universe operands (a failing first step leaves the tree unchanged, asserted, and is therefore covered by length 1)"
				b["unclean_symbolic_bytes"] = 5
			}
			return b
		},
		Trusted:     []string{"posixref model (/verif/harness/posix), cross-validated against the real kernel on every explored path"},
		Assumptions: []string{"os.nextRandom stub: one decimal digit in {0,1}"},
	})
}
