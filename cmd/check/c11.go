package main

import "verif/engine"

func init() {
	reg(&property{
		ID: "C11",
		Groups: func(tier string, seed int) []group {
			cfg := engine.DefaultConfig()
			cfg.Budget = 8000000
			var cs []engine.Case
			maxN := int64(3)
			if tier == "thorough" {
				maxN = 5
			}
			for d := int64(0); d < 5; d++ {
				for op := int64(0); op < 15; op++ {
					for n := int64(0); n <= maxN; n++ {
						if tier == "quick" && n == 3 && d >= 2 {
							continue
						}
						cs = append(cs, mkCase("", "c11", "HView", cfg, d, op, n))
					}
				}
				cs = append(cs, mkCase("", "c11", "HIsolation", cfg, d))
			}
			return []group{{Tags: "", Pkgs: []string{"c11"}, Cases: cs}}
		},
		Reach:       []string{"view", "isolation"},
		Explanation: "Bounded symbolic execution of MemFS.Sub (view creation by struct copy and root substitution, searchNode starting at the view's root, lexical clamping of '..'): a parent P and a twin parent Q are built identically (symlink-free); V = P.Sub(d) for d in {/w, /w/a, /, /w/a/.., . with the working directory at /w}; one of 15 operations is applied through V on the path \"/\" followed by n fully symbolic bytes (all values but NUL, so '.', '..', repeated separators and every name are covered) and, on Q, on the cleaned path prefixed with d; errno, result, the whole tree of P versus Q, and what V shows versus Q's subtree must be equal for every value: nothing outside d can be reached or changed by any path. Isolation: SetUser/SetUMask/Chdir on a view with symbolic user and umask leave the parent and a sibling view unchanged; changes made through the parent are visible through the views.",
		Bounds: func(tier string) map[string]any {
			return map[string]any{"symbolic_path_bytes": map[string]int{"quick": 3, "thorough": 5}[tier], "calls_per_history": 1, "view_directories": 5, "outside": "symbolic links (the property is stated for symlink-free paths), longer paths, histories, relative paths after Chdir"}
		},
	})
}
