package main

import "verif/engine"

func init() {
	reg(&property{
		ID: "C16",
		Groups: func(tier string, seed int) []group {
			cfg := engine.DefaultConfig()
			cfg.Budget = 30000000
			var cs []engine.Case
			sizes := []int64{0, 1, 3}
			big := []int64{32768}
			faults := int64(1)
			if tier == "thorough" {
				big = []int64{32767, 32768, 32769, 65537}
				faults = 2
				sizes = []int64{0, 1, 3, 8}
			}
			for sk := int64(0); sk <= 1; sk++ {
				for dk := int64(0); dk <= 1; dk++ {
					for _, n := range sizes {
						for h := int64(0); h <= 1; h++ {
							cs = append(cs, mkCase("", "c16", "HCopy", cfg, sk, dk, n, h, faults))
						}
					}
					for _, n := range big {
						if tier == "quick" && sk != dk {
							continue
						}
						cs = append(cs, mkCase("", "c16", "HCopy", cfg, sk, dk, n, 1, 1))
					}
				}
				for _, n := range sizes {
					cs = append(cs, mkCase("", "c16", "HHash", cfg, sk, n, faults))
				}
				for _, n := range big {
					cs = append(cs, mkCase("", "c16", "HHash", cfg, sk, n, 1))
				}
			}
			return []group{{Tags: "", Pkgs: []string{"c16"}, Cases: cs}}
		},
		Reach:       []string{"copy", "copy-ok", "fault-fired", "hash"},
		Explanation: "Bounded symbolic execution of avfs.CopyFile, CopyFileHash and HashFile (with io.CopyBuffer, io.MultiWriter, the pooled 32 KiB buffer) over FailFS-wrapped MemFS/OrefaFS in all four source/destination pairings. The fault plan is symbolic: invocation i of the failure function fails iff boolean fail#i, so the solver searches all plans with at most max_faults faults for one under which err == nil although a consulted step failed, or err == nil with wrong bytes/permissions/digest. File content (<= 8 bytes) and permission bits are symbolic; around the 32 KiB buffer boundary the content is concrete.",
		Bounds: func(tier string) map[string]any {
			if tier == "thorough" {
				return map[string]any{"symbolic_content_sizes": []int{0, 1, 3, 8}, "concrete_sizes": []int{32767, 32768, 32769, 65537}, "max_faults_per_plan": 2, "pairs": "all 4 of {MemFS,OrefaFS}^2"}
			}
			return map[string]any{"symbolic_content_sizes": []int{0, 1, 3}, "concrete_sizes": []int{32768}, "max_faults_per_plan": 1, "pairs": "all 4 of {MemFS,OrefaFS}^2 (32 KiB: same-kind pairs)"}
		},
		Assumptions: []string{"a failing Close of the source (read side) is not required to be reported", "hasher = recording hash whose digest is the byte sequence written to it"},
	})
}
