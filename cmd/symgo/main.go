// Command symgo is the development front end of the engine: run one harness.
package main

import (
	"encoding/json"
	"flag"
	"fmt"
	"os"
	"strconv"

	"verif/engine"
)

func main() {
	if k := os.Getenv("VERIF_CROSS"); k != "" && k != "off" {
		engine.CrossKind = k
		if n, err := strconv.Atoi(os.Getenv("VERIF_CROSS_EVERY")); err == nil {
			engine.CrossEvery = n
		}
	}
	tags := flag.String("tags", "avfs_setostype", "build tags")
	workers := flag.Int("w", 16, "workers")
	verbose := flag.Bool("v", false, "print every path")
	maxshow := flag.Int("show", 10, "max non-OK paths to show")
	preempt := flag.Int("preempt", 2, "pre-emption bound")
	race := flag.Bool("race", false, "race monitor")
	flag.Parse()
	a := flag.Args()
	if len(a) < 2 {
		fmt.Println("usage: symgo [flags] <harness pkg suffix> <Func> [int args]")
		os.Exit(2)
	}
	ov, _, err := engine.OverlayFromDir("/verif/overlay", "/repo")
	if err != nil {
		panic(err)
	}
	w, err := engine.Load(engine.LoadConfig{Dir: "/verif/harness", Patterns: []string{"verif/harness/" + a[0]}, Tags: *tags, Overlay: ov})
	if err != nil {
		fmt.Println(err)
		os.Exit(2)
	}
	fmt.Printf("loaded in %.1fs\n", w.LoadTime.Seconds())
	var args []int64
	for _, s := range a[2:] {
		v, _ := strconv.ParseInt(s, 10, 64)
		args = append(args, v)
	}
	cfg := engine.DefaultConfig()
	cfg.Preempt = *preempt
	cfg.Race = *race
	c := engine.Case{Name: a[1], Pkg: "verif/harness/" + a[0], Func: a[1], Args: args, Cfg: cfg}
	ex := engine.NewExplorer(w, *workers)
	kinds := map[string]int{}
	viol := map[string]int{}
	obl, dis := 0, 0
	shown := 0
	ex.OnResult = func(r engine.PathResult) {
		kinds[r.Kind]++
		for _, as := range r.Asserts {
			obl++
			if as.Verdict == 0 {
				dis++
			} else {
				viol[as.Sig+fmt.Sprint(" v=", as.Verdict)]++
			}
		}
		if *verbose || (r.Kind != "OK" && r.Kind != "ASSUME" && shown < *maxshow) {
			shown++
			b, _ := json.Marshal(r)
			fmt.Println(string(b))
		}
	}
	ex.Run([]engine.Case{c})
	fmt.Printf("paths=%d kinds=%v obligations=%d discharged=%d\nviolations=%v\nqueries=%d unknown=%d errors=%d solver=%.2fs steps=%d wall=%.2fs\n",
		ex.Stats.Paths, kinds, obl, dis, viol, ex.Stats.Queries, ex.Stats.Unknown, ex.Stats.SolverErrors, ex.Stats.SolverTime.Seconds(), ex.Stats.Steps, ex.Stats.Wall.Seconds())
	fmt.Printf("cross: agree=%d noverdict=%d differ=%d time=%.2fs\n", ex.Stats.CrossChecked, ex.Stats.CrossUnknown, ex.Stats.CrossDiffer, ex.Stats.CrossTime.Seconds())
}
