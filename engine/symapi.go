package engine

import (
	"fmt"
	"go/types"
	"strconv"

	"golang.org/x/tools/go/ssa"
)

// symAPI implements package verif/harness/sym inside the interpreter.
var symAPI map[string]intrFn

func (in *Interp) freshName(base string) string {
	k := in.nameCount[base]
	in.nameCount[base] = k + 1
	return base + "#" + strconv.Itoa(k)
}

func smtName(name string, w int) string { return "|" + name + ":" + strconv.Itoa(w) + "|" }

func (in *Interp) newInput(base string, w int, kind string, typ types.Type) Value {
	name := in.freshName(base)
	in.inputs = append(in.inputs, InputDecl{Name: name, W: w, Kind: kind})
	t := in.tm.Var(smtName(name, w), w)
	in.solver.Declare(t.name, w)
	return t
}

func argStr(in *Interp, v Value) string {
	s, ok := v.(SStr).concrete()
	if !ok {
		in.endPath("UNSUPPORTED", "sym API name/label must be concrete")
	}
	return s
}

func init() {
	intT := types.Typ[types.Int]
	symAPI = map[string]intrFn{
		"Int": func(in *Interp, fn *ssa.Function, a []Value, _ *frame) Value {
			return in.newInput(argStr(in, a[0]), 64, "int", intT)
		},
		"Int64": func(in *Interp, fn *ssa.Function, a []Value, _ *frame) Value {
			return in.newInput(argStr(in, a[0]), 64, "int64", intT)
		},
		"Uint32": func(in *Interp, fn *ssa.Function, a []Value, _ *frame) Value {
			return in.newInput(argStr(in, a[0]), 32, "uint32", types.Typ[types.Uint32])
		},
		"Byte": func(in *Interp, fn *ssa.Function, a []Value, _ *frame) Value {
			return in.newInput(argStr(in, a[0]), 8, "byte", types.Typ[types.Uint8])
		},
		"Bool": func(in *Interp, fn *ssa.Function, a []Value, _ *frame) Value {
			return in.newInput(argStr(in, a[0]), 0, "bool", types.Typ[types.Bool])
		},
		"String": func(in *Interp, fn *ssa.Function, a []Value, _ *frame) Value {
			name := in.freshName(argStr(in, a[0]))
			n := int(a[1].(int64))
			in.inputs = append(in.inputs, InputDecl{Name: name, W: 8, Len: n, Kind: "string"})
			s := make(SStr, n)
			for i := range s {
				t := in.tm.Var(smtName(name+"["+strconv.Itoa(i)+"]", 8), 8)
				in.solver.Declare(t.name, 8)
				s[i] = t
			}
			return s
		},
		"Bytes": func(in *Interp, fn *ssa.Function, a []Value, _ *frame) Value {
			name := in.freshName(argStr(in, a[0]))
			n := int(a[1].(int64))
			in.inputs = append(in.inputs, InputDecl{Name: name, W: 8, Len: n, Kind: "bytes"})
			arr := newArray(types.Typ[types.Uint8], n)
			for i := 0; i < n; i++ {
				t := in.tm.Var(smtName(name+"["+strconv.Itoa(i)+"]", 8), 8)
				in.solver.Declare(t.name, 8)
				arr.kids[i].leaf = t
			}
			return Slice{arr: arr, len: n, cap: n}
		},
		"Choose": func(in *Interp, fn *ssa.Function, a []Value, _ *frame) Value {
			name := in.freshName(argStr(in, a[0]))
			n := int(a[1].(int64))
			in.inputs = append(in.inputs, InputDecl{Name: name, W: 64, Kind: "choose"})
			k := in.choose(n)
			// bind the named variable so that models and replays carry the choice
			t := in.tm.Var(smtName(name, 64), 64)
			in.solver.Declare(t.name, 64)
			lit := in.tm.Eq(t, in.tm.Const(uint64(k), 64))
			in.pc = append(in.pc, lit)
			in.solver.Assert(lit)
			return int64(k)
		},
		"Assume": func(in *Interp, fn *ssa.Function, a []Value, _ *frame) Value {
			if !in.cond(a[0]) {
				in.endPath("ASSUME", "assumption false")
			}
			return nil
		},
		"Assert": func(in *Interp, fn *ssa.Function, a []Value, _ *frame) Value {
			in.assert(a[0], argStr(in, a[1]))
			return nil
		},
		"Reach": func(in *Interp, fn *ssa.Function, a []Value, _ *frame) Value {
			in.reach[argStr(in, a[0])] = true
			return nil
		},
		"Label": func(in *Interp, fn *ssa.Function, a []Value, _ *frame) Value {
			in.label = argStr(in, a[0])
			return nil
		},
		"Observe": func(in *Interp, fn *ssa.Function, a []Value, _ *frame) Value {
			in.obs = append(in.obs, ObsEntry{Label: argStr(in, a[0]), Val: a[1]})
			return nil
		},
		"Native": func(in *Interp, fn *ssa.Function, a []Value, _ *frame) Value { return false },
		"Cut": func(in *Interp, fn *ssa.Function, a []Value, _ *frame) Value {
			r := argStr(in, a[0])
			in.cuts = append(in.cuts, r)
			in.endPath("CUT", r)
			return nil
		},
		"Outcome": func(in *Interp, fn *ssa.Function, a []Value, caller *frame) (res Value) {
			th := in.cur
			savedTop := th.top
			defer func() {
				if r := recover(); r != nil {
					tp, ok := r.(*targetPanic)
					if !ok {
						panic(r)
					}
					th.top = savedTop
					res = Agg{true, sstr(tp.class), sstr(tp.site)}
				}
			}()
			in.callValue(a[0], nil, caller)
			return Agg{false, SStr(nil), SStr(nil)}
		},
		"Concretize": func(in *Interp, fn *ssa.Function, a []Value, _ *frame) Value {
			if _, ok := a[0].(*Term); ok {
				return in.concretize(a[0], intT)
			}
			return a[0]
		},
		"Itoa": func(in *Interp, fn *ssa.Function, a []Value, _ *frame) Value {
			v := in.concretize(a[0], intT)
			return sstr(strconv.FormatInt(v, 10))
		},
	}
}

// assert records one obligation: pc ∧ ¬c is sent to the solver.
func (in *Interp) assert(c Value, sig string) {
	replay := len(in.decisions) < len(in.prefix)
	if replay {
		d := in.prefix[len(in.decisions)]
		in.decisions = append(in.decisions, d)
		// follow the recorded continuation: the path goes on under c
		switch x := c.(type) {
		case bool:
			if !x {
				in.endPath("ASSERTFAIL", sig)
			}
		case *Term:
			if d.V == 2 {
				in.endPath("ASSERTFAIL", sig)
			}
			if !x.IsTrue() {
				in.known[x] = true
				in.pc = append(in.pc, x)
				in.solver.Assert(x)
			}
		}
		return
	}
	rec := AssertRec{Sig: sig}
	cont := true
	var code uint64
	switch x := c.(type) {
	case bool:
		rec.Concrete = true
		if x {
			rec.Verdict = 0
		} else {
			rec.Verdict = 1
			rec.Model = in.model(nil)
			cont = false
		}
	case *Term:
		neg := in.tm.Not(x)
		if v, ok := in.known[x]; ok && v {
			rec.Verdict = 0
			rec.Concrete = true
			break
		}
		r := in.solver.CheckWith(neg)
		switch r {
		case Unsat:
			rec.Verdict = 0
		case Sat:
			rec.Verdict = 1
			rec.Model = in.model(neg)
			// can the path continue with c true?
			r2 := in.solver.CheckWith(x)
			if r2 != Sat {
				cont = false
				code = 2
			}
		default:
			rec.Verdict = -1
		}
		if cont && !x.IsTrue() {
			in.known[x] = true
			in.pc = append(in.pc, x)
			in.solver.Assert(x)
		}
	default:
		panic(fmt.Sprintf("Assert on %T", c))
	}
	in.asserts = append(in.asserts, rec)
	in.decisions = append(in.decisions, dec{B: true, V: code})
	if !cont {
		in.endPath("ASSERTFAIL", sig)
	}
}

// model returns the values of all declared inputs under pc (∧ extra).
func (in *Interp) model(extra *Term) map[string]uint64 {
	if extra != nil {
		in.solver.Push()
		in.solver.Assert(extra)
		defer in.solver.Pop()
	}
	if in.solver.Check() != Sat {
		return nil
	}
	var names []string
	for _, d := range in.inputs {
		if d.Len > 0 || d.Kind == "string" || d.Kind == "bytes" {
			for i := 0; i < d.Len; i++ {
				names = append(names, smtName(d.Name+"["+strconv.Itoa(i)+"]", 8))
			}
		} else {
			names = append(names, smtName(d.Name, d.W))
		}
	}
	return in.solver.Values(names)
}
