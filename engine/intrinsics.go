package engine

import (
	"fmt"
	"go/token"
	"go/types"
	"strconv"
	"strings"

	"golang.org/x/tools/go/ssa"
)

type intrFn func(in *Interp, fn *ssa.Function, args []Value, caller *frame) Value

var intrTable map[string]intrFn

// IntrinsicNames lists the modelled functions (reported in evidence).
func IntrinsicNames() []string {
	var r []string
	for k := range intrTable {
		r = append(r, k)
	}
	return r
}

func init() {
	u8 := types.Typ[types.Uint8]
	eqByte := func(in *Interp, a, b Value) bool {
		return in.cond(in.binop(token.EQL, a, b, u8, u8))
	}
	sliceBytes := func(s Slice) SStr {
		r := make(SStr, s.len)
		for i := 0; i < s.len; i++ {
			r[i] = s.arr.kids[s.off+i].leaf
		}
		return r
	}
	asStr := func(v Value) SStr {
		switch x := v.(type) {
		case SStr:
			return x
		case Slice:
			return sliceBytes(x)
		}
		panic(fmt.Sprintf("asStr %T", v))
	}
	indexByte := func(in *Interp, fn *ssa.Function, args []Value, _ *frame) Value {
		s := asStr(args[0])
		for i, b := range s {
			if eqByte(in, b, args[1]) {
				return int64(i)
			}
		}
		return int64(-1)
	}
	lastIndexByte := func(in *Interp, fn *ssa.Function, args []Value, _ *frame) Value {
		s := asStr(args[0])
		for i := len(s) - 1; i >= 0; i-- {
			if eqByte(in, s[i], args[1]) {
				return int64(i)
			}
		}
		return int64(-1)
	}
	count := func(in *Interp, fn *ssa.Function, args []Value, _ *frame) Value {
		s := asStr(args[0])
		n := int64(0)
		for _, b := range s {
			if eqByte(in, b, args[1]) {
				n++
			}
		}
		return n
	}
	indexStr := func(in *Interp, fn *ssa.Function, args []Value, _ *frame) Value {
		s, sub := asStr(args[0]), asStr(args[1])
		for i := 0; i+len(sub) <= len(s); i++ {
			if in.cond(in.strEq(s[i:i+len(sub)], sub)) {
				return int64(i)
			}
		}
		return int64(-1)
	}
	equal := func(in *Interp, fn *ssa.Function, args []Value, _ *frame) Value {
		return in.strEq(asStr(args[0]), asStr(args[1]))
	}
	compare := func(in *Interp, fn *ssa.Function, args []Value, _ *frame) Value {
		a, b := asStr(args[0]), asStr(args[1])
		if in.cond(in.strEq(a, b)) {
			return int64(0)
		}
		if in.cond(in.strLess(a, b, false)) {
			return int64(-1)
		}
		return int64(1)
	}
	lock := func(in *Interp, fn *ssa.Function, args []Value, _ *frame) Value {
		in.mutexLock(args[0].(*Obj), in.site())
		return nil
	}
	unlock := func(in *Interp, fn *ssa.Function, args []Value, _ *frame) Value {
		in.mutexUnlock(args[0].(*Obj))
		return nil
	}
	identity := func(in *Interp, fn *ssa.Function, args []Value, _ *frame) Value { return args[0] }
	nop := func(in *Interp, fn *ssa.Function, args []Value, _ *frame) Value { return zeroResults(fn) }
	atomicAdd := func(in *Interp, fn *ssa.Function, args []Value, _ *frame) Value {
		in.yield("atomic")
		p := args[0].(*Obj)
		t := fn.Signature.Params().At(1).Type()
		p.leaf = in.binop(token.ADD, p.leaf, args[1], t, t)
		return p.leaf
	}
	atomicLoad := func(in *Interp, fn *ssa.Function, args []Value, _ *frame) Value {
		in.yield("atomic")
		return args[0].(*Obj).leaf
	}
	atomicStore := func(in *Interp, fn *ssa.Function, args []Value, _ *frame) Value {
		in.yield("atomic")
		args[0].(*Obj).leaf = args[1]
		return nil
	}
	atomicSwap := func(in *Interp, fn *ssa.Function, args []Value, _ *frame) Value {
		in.yield("atomic")
		p := args[0].(*Obj)
		old := p.leaf
		p.leaf = args[1]
		return old
	}
	atomicCAS := func(in *Interp, fn *ssa.Function, args []Value, _ *frame) Value {
		in.yield("atomic")
		p := args[0].(*Obj)
		if in.valEq(p.leaf, args[1]) {
			p.leaf = args[2]
			return true
		}
		return false
	}
	opaqueStr := func(in *Interp, fn *ssa.Function, args []Value, _ *frame) Value { return sstr("<fmt>") }

	intrTable = map[string]intrFn{
		"internal/bytealg.IndexByte":           indexByte,
		"internal/bytealg.IndexByteString":     indexByte,
		"internal/bytealg.LastIndexByte":       lastIndexByte,
		"internal/bytealg.LastIndexByteString": lastIndexByte,
		"internal/bytealg.Count":               count,
		"internal/bytealg.CountString":         count,
		"internal/bytealg.Index":               indexStr,
		"internal/bytealg.IndexString":         indexStr,
		"internal/bytealg.Equal":               equal,
		"internal/bytealg.Compare":             compare,
		"internal/bytealg.CompareString":       compare,
		"strings.Compare":                      compare,
		"strings.Index":                        indexStr,
		"bytes.Index":                          indexStr,
		"strings.IndexByte":                    indexByte,
		"bytes.IndexByte":                      indexByte,
		"bytes.Equal":                          equal,
		"internal/stringslite.Index":           indexStr,
		"internal/stringslite.IndexByte":       indexByte,
		"internal/bytealg.MakeNoZero": func(in *Interp, fn *ssa.Function, args []Value, _ *frame) Value {
			n := in.sizeArg(args[0], types.Typ[types.Int], "len")
			return Slice{arr: newArray(u8, n), len: n, cap: n}
		},
		"internal/abi.NoEscape":      identity,
		"internal/abi.Escape":        identity,
		"runtime.KeepAlive":          nop,
		"runtime.SetFinalizer":       nop,
		"runtime.Gosched":            func(in *Interp, fn *ssa.Function, args []Value, _ *frame) Value { in.yield("gosched"); return nil },
		"internal/race.Acquire":      nop,
		"internal/race.Release":      nop,
		"internal/race.ReleaseMerge": nop,
		"internal/race.Disable":      nop,
		"internal/race.Enable":       nop,
		"internal/race.Read":         nop,
		"internal/race.Write":        nop,
		"internal/race.ReadRange":    nop,
		"internal/race.WriteRange":   nop,

		"(*sync.Mutex).Lock":   lock,
		"(*sync.Mutex).Unlock": unlock,
		"(*sync.Mutex).TryLock": func(in *Interp, fn *ssa.Function, args []Value, _ *frame) Value {
			return in.mutexTryLock(args[0].(*Obj), in.site())
		},
		"(*sync.RWMutex).Lock":   lock,
		"(*sync.RWMutex).Unlock": unlock,
		"(*sync.RWMutex).RLock": func(in *Interp, fn *ssa.Function, args []Value, _ *frame) Value {
			in.mutexRLock(args[0].(*Obj), in.site())
			return nil
		},
		"(*sync.RWMutex).RUnlock": func(in *Interp, fn *ssa.Function, args []Value, _ *frame) Value {
			in.mutexRUnlock(args[0].(*Obj))
			return nil
		},
		"(*sync.WaitGroup).Add": func(in *Interp, fn *ssa.Function, args []Value, _ *frame) Value {
			w := in.wgOf(args[0].(*Obj))
			d := args[1].(int64)
			if d < 0 {
				w.relVC = in.raceRelease(in.cur, w.relVC, false)
			}
			w.n += d
			if w.n < 0 {
				in.tpanic("explicit", "sync: negative WaitGroup counter")
			}
			return nil
		},
		"(*sync.WaitGroup).Done": func(in *Interp, fn *ssa.Function, args []Value, _ *frame) Value {
			w := in.wgOf(args[0].(*Obj))
			w.relVC = in.raceRelease(in.cur, w.relVC, false)
			w.n--
			if w.n < 0 {
				in.tpanic("explicit", "sync: negative WaitGroup counter")
			}
			return nil
		},
		"(*sync.WaitGroup).Wait": func(in *Interp, fn *ssa.Function, args []Value, _ *frame) Value {
			w := in.wgOf(args[0].(*Obj))
			in.block(func() bool { return w.n == 0 }, "WaitGroup.Wait")
			in.raceAcquire(in.cur, w.relVC)
			return nil
		},
		"(*sync.Once).Do": func(in *Interp, fn *ssa.Function, args []Value, caller *frame) Value {
			o := args[0].(*Obj)
			ls := in.lockOf(o)
			if ls.pending == -1 {
				return nil
			}
			ls.pending = -1
			in.callValue(args[1], nil, caller)
			return nil
		},
		"(*sync.Pool).Get": func(in *Interp, fn *ssa.Function, args []Value, caller *frame) Value {
			p := args[0].(*Obj)
			// Pool{noCopy, local, localSize, victim, victimSize, New}
			nf := p.kids[len(p.kids)-1].leaf
			if nf == nil {
				return Iface{}
			}
			return in.callValue(nf, nil, caller)
		},
		"(*sync.Pool).Put": nop,

		"sync/atomic.AddUint64":            atomicAdd,
		"sync/atomic.AddInt64":             atomicAdd,
		"sync/atomic.AddUint32":            atomicAdd,
		"sync/atomic.AddInt32":             atomicAdd,
		"sync/atomic.AddUintptr":           atomicAdd,
		"sync/atomic.LoadUint64":           atomicLoad,
		"sync/atomic.LoadInt64":            atomicLoad,
		"sync/atomic.LoadUint32":           atomicLoad,
		"sync/atomic.LoadInt32":            atomicLoad,
		"sync/atomic.LoadPointer":          atomicLoad,
		"sync/atomic.LoadUintptr":          atomicLoad,
		"sync/atomic.StoreUint64":          atomicStore,
		"sync/atomic.StoreInt64":           atomicStore,
		"sync/atomic.StoreUint32":          atomicStore,
		"sync/atomic.StoreInt32":           atomicStore,
		"sync/atomic.StorePointer":         atomicStore,
		"sync/atomic.StoreUintptr":         atomicStore,
		"sync/atomic.SwapUint32":           atomicSwap,
		"sync/atomic.SwapInt32":            atomicSwap,
		"sync/atomic.SwapUint64":           atomicSwap,
		"sync/atomic.SwapInt64":            atomicSwap,
		"sync/atomic.CompareAndSwapUint32": atomicCAS,
		"sync/atomic.CompareAndSwapInt32":  atomicCAS,
		"sync/atomic.CompareAndSwapUint64": atomicCAS,
		"sync/atomic.CompareAndSwapInt64":  atomicCAS,

		"time.Now": func(in *Interp, fn *ssa.Function, args []Value, _ *frame) Value {
			in.clock++
			return Agg{int64(0), int64(63800000000) + in.clock, (*Obj)(nil)}
		},
		"time.Sleep": nop,
		"syscall.Umask": func(in *Interp, fn *ssa.Function, args []Value, _ *frame) Value {
			old := in.umask
			in.umask = args[0].(int64) & 0o777
			return old
		},
		"errors.Is": func(in *Interp, fn *ssa.Function, args []Value, caller *frame) Value {
			return in.errorsIs(args[0].(Iface), args[1].(Iface), caller, 0)
		},
		"fmt.Sprintf":  opaqueStr,
		"fmt.Sprint":   opaqueStr,
		"fmt.Sprintln": opaqueStr,
		"fmt.Errorf": func(in *Interp, fn *ssa.Function, args []Value, caller *frame) Value {
			en := in.world.fn("errors", "New")
			return in.call(en, []Value{sstr("<fmt>")}, caller)
		},
		"fmt.Println":  nop,
		"fmt.Printf":   nop,
		"fmt.Print":    nop,
		"fmt.Fprintf":  nop,
		"fmt.Fprintln": nop,
		"(*strings.Builder).String": func(in *Interp, fn *ssa.Function, args []Value, _ *frame) Value {
			b := args[0].(*Obj)
			// Builder{addr *Builder, buf []byte}
			buf := b.kids[1].leaf.(Slice)
			return sliceBytes(buf)
		},
		"(*strings.Builder).copyCheck": nop,
		"reflect.ValueOf": func(in *Interp, fn *ssa.Function, args []Value, _ *frame) Value {
			// opaque box: Agg{typ, ptr, flag} replaced by a 3-field aggregate carrying the interface
			return Agg{args[0], (*Obj)(nil), int64(0)}
		},
		"(reflect.Value).IsNil": func(in *Interp, fn *ssa.Function, args []Value, _ *frame) Value {
			box := args[0].(Agg)
			iv, _ := box[0].(Iface)
			if iv.t == nil {
				in.tpanic("explicit", "reflect: call of reflect.Value.IsNil on zero Value")
			}
			switch x := iv.v.(type) {
			case *Obj:
				return x == nil
			case *MapV:
				return x == nil
			case Slice:
				return x.arr == nil
			case nil:
				return true
			case *Closure:
				return x == nil
			}
			in.tpanic("explicit", "reflect: call of reflect.Value.IsNil on non-nillable Value")
			return nil
		},
		"reflect.TypeOf": func(in *Interp, fn *ssa.Function, args []Value, _ *frame) Value {
			return Iface{}
		},
		"sort.Slice": func(in *Interp, fn *ssa.Function, args []Value, caller *frame) Value {
			sl := args[0].(Iface).v.(Slice)
			less := args[1]
			// insertion sort with the real less closure; swaps move whole elements
			for i := 1; i < sl.len; i++ {
				for j := i; j > 0; j-- {
					r := in.callValue(less, []Value{int64(j), int64(j - 1)}, caller)
					if !in.cond(r) {
						break
					}
					a, b := sl.arr.kids[sl.off+j], sl.arr.kids[sl.off+j-1]
					va, vb := a.load(), b.load()
					a.store(vb)
					b.store(va)
				}
			}
			return nil
		},
		"sort.SliceStable": nil,
		"github.com/avfs/avfs.volumeNameLen": func(in *Interp, fn *ssa.Function, args []Value, caller *frame) Value {
			f := in.world.fn("internal/filepathlite", "volumeNameLen")
			if f == nil {
				in.endPath("UNSUPPORTED", "internal/filepathlite.volumeNameLen not loaded")
			}
			return in.call(f, args, caller)
		},
		// os.nextRandom (linkname): "some decimal string", narrowed to one digit
		// in {0,1} so that collisions of temporary names are reachable.
		"github.com/avfs/avfs.nextRandom": func(in *Interp, fn *ssa.Function, args []Value, caller *frame) Value {
			in.usedRandom = true
			k := in.rnd
			in.rnd++
			if k >= 2 {
				// from the third draw on the names are fresh (the retry loops terminate)
				return sstr(strconv.Itoa(k))
			}
			v := in.newInput("nextRandom", 8, "random", types.Typ[types.Uint8]).(*Term)
			if !in.cond(in.fromTerm(in.tm.Cmp("bvule", v, in.tm.Const(1, 8)), types.Typ[types.Bool])) {
				in.endPath("ASSUME", "random digit out of the modelled range")
			}
			return SStr{in.fromTerm(in.tm.Bin("bvadd", v, in.tm.Const('0', 8)), types.Typ[types.Uint8])}
		},
		// decimal rendering of a symbolic number is enumerative: concretize (bounded by MaxShape)
		"strconv.Itoa":       concArg0,
		"strconv.FormatInt":  concArg0,
		"strconv.FormatUint": concArg0,
		"os.Getenv":          func(in *Interp, fn *ssa.Function, args []Value, _ *frame) Value { return SStr(nil) },
	}
	delete(intrTable, "sort.SliceStable")
}

// concArg0 concretizes a symbolic first argument, then runs the real function.
func concArg0(in *Interp, fn *ssa.Function, args []Value, caller *frame) Value {
	if _, ok := args[0].(*Term); ok {
		args = append([]Value(nil), args...)
		args[0] = in.concretize(args[0], fn.Signature.Params().At(0).Type())
	}
	fr := &frame{fn: fn, env: make(map[ssa.Value]Value, 16), caller: caller}
	for i, p := range fn.Params {
		fr.env[p] = args[i]
	}
	return in.run(fr)
}

// errorsIs is the documented errors.Is algorithm (==, Is method, Unwrap chain).
func (in *Interp) errorsIs(err, target Iface, caller *frame, depth int) Value {
	if err.t == nil || target.t == nil {
		return err.t == nil && target.t == nil
	}
	if depth > 32 {
		in.endPath("UNSUPPORTED", "errors.Is chain too deep")
	}
	comparable := types.Comparable(target.t)
	for {
		if comparable && types.Identical(err.t, target.t) {
			if in.valEq(err.v, target.v) {
				return true
			}
		}
		if m := in.findMethod(err.t, "Is"); m != nil && m.Signature.Params().Len() == 1 && m.Signature.Results().Len() == 1 {
			r := in.call(m, []Value{err.v, target}, caller)
			if in.cond(r) {
				return true
			}
		}
		um := in.findMethod(err.t, "Unwrap")
		if um == nil {
			return false
		}
		r := in.call(um, []Value{err.v}, caller)
		switch x := r.(type) {
		case Iface:
			if x.t == nil {
				return false
			}
			err = x
		case Slice:
			for i := 0; i < x.len; i++ {
				e := x.arr.kids[x.off+i].leaf.(Iface)
				if e.t == nil {
					continue
				}
				if in.cond(in.errorsIs(e, target, caller, depth+1)) {
					return true
				}
			}
			return false
		default:
			return false
		}
	}
}

func (in *Interp) findMethod(t types.Type, name string) *ssa.Function {
	ms := in.prog.MethodSets.MethodSet(t)
	for i := 0; i < ms.Len(); i++ {
		sel := ms.At(i)
		if sel.Obj().Name() == name {
			return in.prog.MethodValue(sel)
		}
	}
	return nil
}

type intrCacheEnt struct {
	f  intrFn
	ok bool
}

func (in *Interp) intrinsic(fn *ssa.Function, args []Value, caller *frame) (Value, bool) {
	ent, seen := in.world.intrLookup(fn)
	if !seen {
		name := fn.String()
		if o := fn.Origin(); o != nil {
			name = o.String()
		}
		var f intrFn
		if fn.Pkg != nil && strings.HasSuffix(fn.Pkg.Pkg.Path(), "harness/sym") && fn.Signature.Recv() == nil {
			f = symAPI[fn.Name()]
		} else if o := fn.Origin(); o != nil && o.Pkg != nil && strings.HasSuffix(o.Pkg.Pkg.Path(), "harness/sym") {
			f = symAPI[o.Name()]
		}
		if f == nil {
			f = intrTable[name]
		}
		if f == nil {
			f = in.world.extraIntr[name]
		}
		if f == nil && fn.Synthetic != "" && fn.Name() == "init" && fn.Pkg != nil {
			f = pkgInit
		}
		ent = intrCacheEnt{f: f, ok: f != nil}
		in.world.intrStore(fn, ent)
	}
	if !ent.ok {
		return nil, false
	}
	return ent.f(in, fn, args, caller), true
}

// pkgInit runs (or skips) a package initializer.
func pkgInit(in *Interp, fn *ssa.Function, args []Value, caller *frame) Value {
	p := fn.Pkg.Pkg.Path()
	if !in.world.initAllowed(p) {
		return nil
	}
	fr := &frame{fn: fn, env: make(map[ssa.Value]Value, 16), caller: caller}
	in.run(fr)
	return nil
}
