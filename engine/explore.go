package engine

import (
	"fmt"
	"os"
	"runtime/debug"
	"sort"
	"strconv"
	"strings"
	"sync"
	"time"

	"golang.org/x/tools/go/ssa"
)

// Case is one harness invocation with concrete parameters.
type Case struct {
	Name string // unique
	Pkg  string // harness package path
	Func string // harness function
	Args []int64
	Cfg  Config
}

// PathResult describes one explored path.
type PathResult struct {
	Case      string            `json:"case"`
	Kind      string            `json:"kind"` // OK, ASSERTFAIL, PANIC, DEADLOCK, BUDGET, CUT, UNSUPPORTED, INCONCLUSIVE, ASSUME, INFEASIBLE, RACE, GOPANIC, FATAL, ENGINE
	Reason    string            `json:"reason,omitempty"`
	Label     string            `json:"label,omitempty"`
	PanicCls  string            `json:"panic_class,omitempty"`
	PanicSite string            `json:"panic_site,omitempty"`
	Inputs    []InputDecl       `json:"inputs,omitempty"`
	Model     map[string]uint64 `json:"model,omitempty"`
	Obs       []string          `json:"obs,omitempty"`
	Asserts   []AssertOut       `json:"asserts,omitempty"`
	Reach     []string          `json:"reach,omitempty"`
	Cuts      []string          `json:"cuts,omitempty"`
	Steps     int               `json:"steps"`
	Threads   int               `json:"threads,omitempty"`
	Decisions int               `json:"decisions"`
	NoNative  bool              `json:"no_native,omitempty"` // depends on a stubbed environment value (random name)
}

type AssertOut struct {
	Sig      string            `json:"sig"`
	Verdict  int               `json:"verdict"`
	Concrete bool              `json:"concrete,omitempty"`
	Model    map[string]uint64 `json:"model,omitempty"`
	Inputs   []InputDecl       `json:"inputs,omitempty"`
}

type Stats struct {
	Paths, Queries, Unknown, SolverErrors int
	CrossChecked, CrossUnknown, CrossDiffer int
	CrossTime time.Duration
	SolverTime                            time.Duration
	Steps                                 int64
	Wall                                  time.Duration
}

type job struct {
	c      *Case
	prefix []dec
}

type Explorer struct {
	W        *World
	Workers  int
	OnResult func(PathResult)
	mu       sync.Mutex
	cond     *sync.Cond
	queue    []job
	busy     int
	Stats    Stats
	stop     bool
	Deadline time.Time // zero = none; when passed no new path is started
	Dropped  int       // prefixes left unexplored because of the deadline
	perCase  map[string]int
	entered  map[*ssa.Function]int
	lenient  map[string]int
}

func NewExplorer(w *World, workers int) *Explorer {
	e := &Explorer{W: w, Workers: workers, perCase: map[string]int{}, entered: map[*ssa.Function]int{}, lenient: map[string]int{}}
	e.cond = sync.NewCond(&e.mu)
	return e
}

func (e *Explorer) Run(cases []Case) {
	t0 := time.Now()
	for i := range cases {
		e.queue = append(e.queue, job{c: &cases[i]})
	}
	// LIFO pop from the end; reverse so the first case starts first
	for i, j := 0, len(e.queue)-1; i < j; i, j = i+1, j-1 {
		e.queue[i], e.queue[j] = e.queue[j], e.queue[i]
	}
	var wg sync.WaitGroup
	for i := 0; i < e.Workers; i++ {
		wg.Add(1)
		go func(id int) {
			defer wg.Done()
			e.worker(id)
		}(i)
	}
	wg.Wait()
	e.Stats.Wall = time.Since(t0)
}

func (e *Explorer) worker(id int) {
	in := newInterp(e.W)
	defer func() {
		e.mu.Lock()
		e.Stats.Queries += in.solver.Queries
		e.Stats.Unknown += in.solver.Unknown
		e.Stats.SolverErrors += in.solver.Errors
		e.Stats.CrossChecked += in.solver.CrossChecked
		e.Stats.CrossUnknown += in.solver.CrossUnknown
		e.Stats.CrossDiffer += in.solver.CrossDiffer
		e.Stats.CrossTime += in.solver.CrossDur
		e.Stats.SolverTime += in.solver.Dur
		e.Stats.Steps += in.TotalSteps
		for f, n := range in.enteredFns {
			e.entered[f] += n
		}
		for f, n := range in.lenientLog {
			e.lenient[f] += n
		}
		e.mu.Unlock()
		in.solver.Close()
	}()
	for {
		e.mu.Lock()
		for len(e.queue) == 0 && e.busy > 0 && !e.stop {
			e.cond.Wait()
		}
		if !e.Deadline.IsZero() && len(e.queue) > 0 && time.Now().After(e.Deadline) {
			e.Dropped += len(e.queue)
			e.queue = nil
			e.stop = true
		}
		if len(e.queue) == 0 || e.stop {
			e.mu.Unlock()
			e.cond.Broadcast()
			return
		}
		j := e.queue[len(e.queue)-1]
		e.queue = e.queue[:len(e.queue)-1]
		e.busy++
		e.mu.Unlock()

		res, alts := in.runPath(j.c, j.prefix)

		e.mu.Lock()
		e.busy--
		for _, a := range alts {
			e.queue = append(e.queue, job{c: j.c, prefix: a})
		}
		e.Stats.Paths++
		e.perCase[j.c.Name]++
		if j.c.Cfg.MaxPaths > 0 && e.perCase[j.c.Name] == j.c.Cfg.MaxPaths {
			// drop the remaining work of this case and report the truncation
			q := e.queue[:0]
			dropped := 0
			for _, x := range e.queue {
				if x.c == j.c {
					dropped++
					continue
				}
				q = append(q, x)
			}
			e.queue = q
			if dropped > 0 && e.OnResult != nil {
				e.OnResult(PathResult{Case: j.c.Name, Kind: "CUT", Reason: fmt.Sprintf("MaxPaths reached, %d pending prefixes dropped", dropped), Cuts: []string{"maxpaths"}})
			}
		}
		if e.OnResult != nil {
			e.OnResult(res)
		}
		e.mu.Unlock()
		e.cond.Broadcast()
	}
}

func newInterp(w *World) *Interp {
	in := &Interp{prog: w.Prog, world: w, solver: NewSolver("z3"), enteredFns: map[*ssa.Function]int{}, lenientLog: map[string]int{}}
	in.cfg = DefaultConfig()
	in.resetPath()
	// run package initializers once, snapshot the globals
	in.lenient = true
	in.globals = map[*ssa.Global]*Obj{}
	main := in.newThread()
	in.cur = main
	in.solver.Push()
	func() {
		defer func() {
			if r := recover(); r != nil {
				fmt.Fprintf(os.Stderr, "init stopped: %v at %s\n", fmtPanic(r), in.site())
			}
		}()
		for _, p := range w.Pkgs {
			if f := p.Func("init"); f != nil {
				in.call(f, nil, nil)
			}
		}
	}()
	in.solver.Pop()
	in.lenient = false
	// package time is not initialised (its init needs the OS); give the two
	// location pointers their documented values so that time.Unix works
	if tp := w.Package("time"); tp != nil {
		for _, pr := range [][2]string{{"Local", "localLoc"}, {"UTC", "utcLoc"}} {
			gp, _ := tp.Members[pr[0]].(*ssa.Global)
			gl, _ := tp.Members[pr[1]].(*ssa.Global)
			if gp != nil && gl != nil {
				in.global(gp).leaf = in.global(gl)
				w.mu.Lock()
				delete(w.tainted, gp)
				delete(w.tainted, gl)
				w.mu.Unlock()
			}
		}
	}
	in.globalSnap = in.globals
	return in
}

func fmtPanic(r any) string {
	switch e := r.(type) {
	case *pathEnd:
		return e.kind + ": " + e.reason
	case *targetPanic:
		return "target panic " + e.class + ": " + e.msg + " @ " + e.site
	}
	return fmt.Sprint(r)
}

func (in *Interp) resetPath() {
	in.tm = newTM()
	in.decisions = in.decisions[:0]
	in.pc = in.pc[:0]
	in.known = map[*Term]bool{}
	in.alts = nil
	in.steps = 0
	in.clock = 0
	in.umask = 0o022
	in.threads = nil
	in.cur = nil
	in.abort = nil
	in.abortTP = nil
	in.locks = map[*Obj]*lockState{}
	in.wgs = map[*Obj]*wgState{}
	in.preempts = 0
	in.nameCount = map[string]int{}
	in.inputs = nil
	in.obs = nil
	in.asserts = nil
	in.reach = map[string]bool{}
	in.label = ""
	in.cuts = nil
	in.rnd = 0
	in.usedRandom = false
	in.curVal = 0
}

func (in *Interp) runPath(c *Case, prefix []dec) (res PathResult, alts [][]dec) {
	in.resetPath()
	in.cfg = c.Cfg
	in.prefix = prefix
	// fresh copy of the initialized globals
	cl := newCloner()
	in.globals = make(map[*ssa.Global]*Obj, len(in.globalSnap))
	for g, o := range in.globalSnap {
		in.globals[g] = cl.obj(o)
	}
	main := in.newThread()
	in.cur = main
	fn := in.world.fn(c.Pkg, c.Func)
	if fn == nil {
		return PathResult{Case: c.Name, Kind: "ENGINE", Reason: "no harness function " + c.Pkg + "." + c.Func}, nil
	}
	args := make([]Value, len(c.Args))
	for i, a := range c.Args {
		args[i] = a
	}
	res = PathResult{Case: c.Name, Kind: "OK"}
	in.solver.Push()
	func() {
		defer func() {
			if r := recover(); r != nil {
				switch e := r.(type) {
				case *pathEnd:
					res.Kind, res.Reason = e.kind, e.reason
				case *targetPanic:
					res.Kind = "PANIC"
					res.Reason = e.class + ": " + e.msg
					res.PanicCls, res.PanicSite = e.class, e.site
				default:
					res.Kind = "ENGINE"
					res.Reason = fmt.Sprint(r) + "\n" + string(debug.Stack())
				}
			}
		}()
		in.call(fn, args, nil)
		if in.abort != nil {
			panic(in.abort)
		}
	}()
	in.cur = in.threads[0]
	if in.abortTP != nil {
		res.PanicCls, res.PanicSite = in.abortTP.class, in.abortTP.site
	}
	nthreads := len(in.threads)
	in.killThreads()
	// model of the final path condition (for native cross-validation)
	res.Label = in.label
	res.Inputs = in.inputs
	res.Steps = in.steps
	res.Threads = nthreads
	res.Decisions = len(in.decisions)
	res.Cuts = in.cuts
	res.NoNative = in.usedRandom
	switch res.Kind {
	case "INFEASIBLE", "ASSUME", "ENGINE":
	default:
		if len(in.inputs) > 0 {
			res.Model = cleanModel(in.model(nil))
		}
		memo := map[*Term]uint64{}
		raw := map[string]uint64{}
		for k, v := range res.Model {
			raw[k] = v
		}
		for _, o := range in.obs {
			res.Obs = append(res.Obs, o.Label+"="+in.render(o.Val, res.Model, memo))
		}
	}
	for _, a := range in.asserts {
		ao := AssertOut{Sig: a.Sig, Verdict: a.Verdict, Concrete: a.Concrete}
		if a.Verdict == 1 {
			ao.Model = cleanModel(a.Model)
			ao.Inputs = in.inputs
		}
		res.Asserts = append(res.Asserts, ao)
	}
	for l := range in.reach {
		res.Reach = append(res.Reach, l)
	}
	sort.Strings(res.Reach)
	in.solver.Pop()
	in.TotalSteps += int64(in.steps)
	alts = in.alts
	in.alts = nil
	return res, alts
}

// cleanModel maps SMT names (|name:w|) back to harness names.
func cleanModel(m map[string]uint64) map[string]uint64 {
	if m == nil {
		return nil
	}
	r := make(map[string]uint64, len(m))
	for k, v := range m {
		k = strings.Trim(k, "|")
		if i := strings.LastIndex(k, ":"); i >= 0 {
			k = k[:i]
		}
		r[k] = v
	}
	return r
}

// render prints an observed value under a model in the canonical form shared with the native runner.
func (in *Interp) render(v Value, model map[string]uint64, memo map[*Term]uint64) string {
	ev := func(t *Term) uint64 {
		m2 := map[string]uint64{}
		_ = m2
		return t.Eval(smtModel(model, t), memo)
	}
	switch x := v.(type) {
	case Iface:
		if x.t == nil {
			return "nil"
		}
		return in.renderTyped(x.v, x.t.String(), model, memo)
	case int64:
		return strconv.FormatInt(x, 10)
	case bool:
		return strconv.FormatBool(x)
	case *Term:
		return strconv.FormatUint(ev(x), 10)
	case SStr:
		b := make([]byte, len(x))
		for i, c := range x {
			switch cv := c.(type) {
			case int64:
				b[i] = byte(cv)
			case *Term:
				b[i] = byte(ev(cv))
			}
		}
		return strconv.Quote(string(b))
	case Slice:
		var sb strings.Builder
		sb.WriteByte('[')
		for i := 0; i < x.len; i++ {
			if i > 0 {
				sb.WriteByte(' ')
			}
			sb.WriteString(in.render(x.arr.kids[x.off+i].load(), model, memo))
		}
		sb.WriteByte(']')
		return sb.String()
	case Agg:
		var sb strings.Builder
		sb.WriteByte('{')
		for i := range x {
			if i > 0 {
				sb.WriteByte(' ')
			}
			sb.WriteString(in.render(x[i], model, memo))
		}
		sb.WriteByte('}')
		return sb.String()
	case *Obj:
		if x == nil {
			return "nilptr"
		}
		return "ptr"
	}
	return fmt.Sprintf("<%T>", v)
}

func (in *Interp) renderTyped(v Value, tname string, model map[string]uint64, memo map[*Term]uint64) string {
	// signed/unsigned rendering by dynamic type name
	switch x := v.(type) {
	case *Term:
		u := x.Eval(smtModel(model, x), memo)
		if strings.HasPrefix(tname, "uint") || tname == "byte" {
			return strconv.FormatUint(u, 10)
		}
		if x.w == 0 {
			return strconv.FormatBool(u != 0)
		}
		return strconv.FormatInt(sx(u, x.w), 10)
	}
	return in.render(v, model, memo)
}

// smtModel adapts a cleaned model (harness names) to the SMT variable names of t.
func smtModel(model map[string]uint64, t *Term) map[string]uint64 {
	vs := map[string]int{}
	t.Vars(vs, map[*Term]bool{})
	r := make(map[string]uint64, len(vs))
	for n := range vs {
		k := strings.Trim(n, "|")
		if i := strings.LastIndex(k, ":"); i >= 0 {
			k = k[:i]
		}
		r[n] = model[k]
	}
	return r
}

// Entered returns the functions interpreted, grouped by package path.
func (e *Explorer) Entered() map[string][]string {
	res := map[string][]string{}
	for f := range e.entered {
		p := "?"
		if f.Pkg != nil {
			p = f.Pkg.Pkg.Path()
		} else if o := f.Origin(); o != nil && o.Pkg != nil {
			p = o.Pkg.Pkg.Path()
		} else if par := f.Parent(); par != nil && par.Pkg != nil {
			p = par.Pkg.Pkg.Path()
		}
		res[p] = append(res[p], f.String())
	}
	return res
}

// Lenient returns the body-less functions called during lenient std initialisation.
func (e *Explorer) Lenient() map[string]int { return e.lenient }
