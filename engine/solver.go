package engine

import (
	"bufio"
	"fmt"
	"io"
	"os"
	"os/exec"
	"regexp"
	"strconv"
	"strings"
	"time"
)

// Solver is one persistent SMT solver process (z3 -in by default).
type Solver struct {
	kind    string
	cmd     *exec.Cmd
	in      io.WriteCloser
	w       *bufio.Writer
	out     *bufio.Reader
	decl    map[string]int
	Queries int
	Unknown int
	Errors  int
	Dur     time.Duration
	log     io.Writer

	// cross-checking: a second solver of another kind receives every
	// declaration, assertion, push and pop; every crossEvery-th check-sat is
	// answered by both and the verdicts compared. A sat/unsat disagreement
	// makes the query Unknown (inconclusive) and is counted.
	shadow       *Solver
	crossEvery   int
	crossCount   int
	CrossChecked int // queries answered by both solvers with a definite verdict
	CrossUnknown int // queries on which the second solver gave no verdict
	CrossDiffer  int // sat/unsat disagreements
	CrossDur     time.Duration
}

// CrossKind / CrossEvery configure cross-checking for solvers created afterwards
// ("" = off). Set from VERIF_CROSS / VERIF_CROSS_EVERY by the front ends.
var (
	CrossKind  = ""
	CrossEvery = 1
)

// SolverTimeoutMs is the per-query cap.
var SolverTimeoutMs = 10000

func NewSolver(kind string) *Solver { return newSolver(kind, true) }

func newSolver(kind string, withShadow bool) *Solver {
	var c *exec.Cmd
	switch kind {
	case "cvc5":
		c = exec.Command("cvc5", "--incremental", "--lang=smt2", "--produce-models", fmt.Sprintf("--tlimit-per=%d", SolverTimeoutMs))
	case "z3-new":
		c = exec.Command("z3-new", "-in")
	default:
		kind = "z3"
		c = exec.Command("z3", "-in")
	}
	in, _ := c.StdinPipe()
	out, _ := c.StdoutPipe()
	c.Stderr = os.Stderr
	if err := c.Start(); err != nil {
		panic(err)
	}
	s := &Solver{kind: kind, cmd: c, in: in, w: bufio.NewWriterSize(in, 1<<16), out: bufio.NewReaderSize(out, 1<<16), decl: map[string]int{}}
	if p := os.Getenv("SYMGO_SMTLOG"); p != "" {
		f, _ := os.OpenFile(p, os.O_CREATE|os.O_WRONLY|os.O_APPEND, 0o644)
		s.log = f
	}
	if kind == "cvc5" {
		s.send("(set-logic QF_BV)\n(set-option :global-declarations true)\n")
	} else {
		s.send(fmt.Sprintf("(set-option :global-declarations true)\n(set-option :timeout %d)\n", SolverTimeoutMs))
	}
	if withShadow && CrossKind != "" && CrossKind != kind {
		s.shadow = newSolver(CrossKind, false)
		s.crossEvery = CrossEvery
		if s.crossEvery < 1 {
			s.crossEvery = 1
		}
	}
	return s
}

// send writes state-changing commands (declarations, assertions, push, pop) to
// the solver and to its shadow.
func (s *Solver) send(txt string) {
	s.send1(txt)
	if s.shadow != nil {
		s.shadow.send1(txt)
	}
}

// send1 writes to this solver only.
func (s *Solver) send1(txt string) {
	if s.log != nil {
		io.WriteString(s.log, txt)
	}
	s.w.WriteString(txt)
}

// cross asks the shadow solver the query q (text ending in check-sat, state
// neutral) and compares the verdicts.
func (s *Solver) cross(q string, r int) int {
	if s.shadow == nil || r == Unknown {
		return r
	}
	s.crossCount++
	if s.crossCount%s.crossEvery != 0 {
		return r
	}
	t0 := time.Now()
	s.shadow.send1(q)
	r2 := s.shadow.result()
	s.CrossDur += time.Since(t0)
	switch {
	case r2 == Unknown:
		s.CrossUnknown++
	case r2 != r:
		s.CrossDiffer++
		fmt.Fprintf(os.Stderr, "SOLVER DISAGREEMENT: %s says %d, %s says %d\n", s.kind, r, s.shadow.kind, r2)
		return Unknown
	default:
		s.CrossChecked++
	}
	return r
}

func (s *Solver) Close() {
	if s.shadow != nil {
		s.shadow.Close()
	}
	s.send1("(exit)\n")
	s.w.Flush()
	s.in.Close()
	s.cmd.Wait()
}

func (s *Solver) readLine() string {
	s.w.Flush()
	l, err := s.out.ReadString('\n')
	if err != nil {
		panic(fmt.Sprintf("solver %s died: %v", s.kind, err))
	}
	return strings.TrimSpace(l)
}

func (s *Solver) declareVars(t *Term) {
	vs := map[string]int{}
	t.Vars(vs, map[*Term]bool{})
	for n, w := range vs {
		s.Declare(n, w)
	}
}

func (s *Solver) Declare(name string, w int) {
	if ow, ok := s.decl[name]; ok {
		if ow != w {
			panic(fmt.Sprintf("variable %s redeclared with width %d (was %d)", name, w, ow))
		}
		return
	}
	s.decl[name] = w
	if w == 0 {
		s.send(fmt.Sprintf("(declare-const %s Bool)\n", name))
	} else {
		s.send(fmt.Sprintf("(declare-const %s (_ BitVec %d))\n", name, w))
	}
}

func (s *Solver) Push() { s.send("(push 1)\n") }
func (s *Solver) Pop()  { s.send("(pop 1)\n") }

func (s *Solver) Assert(t *Term) {
	s.declareVars(t)
	s.send("(assert " + t.SMT() + ")\n")
}

// Result of a check: 1 sat, 0 unsat, -1 unknown/error.
const (
	Sat     = 1
	Unsat   = 0
	Unknown = -1
)

func (s *Solver) Check() int {
	t0 := time.Now()
	s.Queries++
	s.send1("(check-sat)\n")
	r := s.result()
	s.Dur += time.Since(t0)
	return s.cross("(check-sat)\n", r)
}

func (s *Solver) result() int {
	for {
		l := s.readLine()
		switch {
		case l == "sat":
			return Sat
		case l == "unsat":
			return Unsat
		case l == "unknown" || l == "timeout":
			s.Unknown++
			return Unknown
		case strings.HasPrefix(l, "(error"):
			s.Errors++
			fmt.Fprintln(os.Stderr, "SOLVER ERROR:", l)
			// the check-sat answer may still follow; an error makes the query inconclusive
			s.drainAfterError()
			return Unknown
		case l == "":
			continue
		default:
			s.Errors++
			fmt.Fprintln(os.Stderr, "SOLVER UNEXPECTED:", l)
			return Unknown
		}
	}
}

func (s *Solver) drainAfterError() {
	s.send1("(echo \"SYNC\")\n")
	for {
		l := s.readLine()
		if l == "SYNC" || l == "\"SYNC\"" {
			return
		}
	}
}

// CheckWith checks satisfiability of the current assertions plus extra.
func (s *Solver) CheckWith(extra *Term) int {
	s.declareVars(extra)
	t0 := time.Now()
	s.Queries++
	q := "(push 1)\n(assert " + extra.SMT() + ")\n(check-sat)\n(pop 1)\n"
	s.send1(q)
	r := s.result()
	s.Dur += time.Since(t0)
	return s.cross(q, r)
}

var valRe = regexp.MustCompile(`\(\s*([^\s()]+)\s+(#x[0-9a-fA-F]+|#b[01]+|true|false)\s*\)`)

// Values returns the model values of the named variables; the last check must have been sat.
func (s *Solver) Values(names []string) map[string]uint64 {
	res := map[string]uint64{}
	if len(names) == 0 {
		return res
	}
	s.send1("(get-value (" + strings.Join(names, " ") + "))\n(echo \"ENDV\")\n")
	var sb strings.Builder
	for {
		l := s.readLine()
		if l == "ENDV" || l == "\"ENDV\"" {
			break
		}
		sb.WriteString(l)
		sb.WriteByte(' ')
	}
	txt := sb.String()
	if strings.Contains(txt, "(error") {
		s.Errors++
		fmt.Fprintln(os.Stderr, "SOLVER ERROR in get-value:", txt)
		return nil
	}
	for _, m := range valRe.FindAllStringSubmatch(txt, -1) {
		res[m[1]] = parseLit(m[2])
	}
	return res
}

func parseLit(l string) uint64 {
	switch {
	case l == "true":
		return 1
	case l == "false":
		return 0
	case strings.HasPrefix(l, "#x"):
		u, _ := strconv.ParseUint(l[2:], 16, 64)
		return u
	case strings.HasPrefix(l, "#b"):
		u, _ := strconv.ParseUint(l[2:], 2, 64)
		return u
	}
	return 0
}

// TermValue returns the model value of a term after a sat check.
func (s *Solver) TermValue(t *Term) (uint64, bool) {
	s.send1("(get-value (" + t.SMT() + "))\n(echo \"ENDV\")\n")
	var sb strings.Builder
	for {
		l := s.readLine()
		if l == "ENDV" || l == "\"ENDV\"" {
			break
		}
		sb.WriteString(l)
		sb.WriteByte(' ')
	}
	txt := sb.String()
	i := strings.LastIndex(txt, "#")
	if i < 0 {
		if strings.Contains(txt, " true)") {
			return 1, true
		}
		if strings.Contains(txt, " false)") {
			return 0, true
		}
		return 0, false
	}
	lit := strings.TrimRight(strings.TrimSpace(txt[i:]), ") ")
	return parseLit(lit), true
}
