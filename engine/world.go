package engine

import (
	"fmt"
	"os"
	"sort"
	"strings"
	"sync"
	"time"

	"golang.org/x/tools/go/packages"
	"golang.org/x/tools/go/ssa"
	"golang.org/x/tools/go/ssa/ssautil"
)

// World is the read-only SSA program shared by all workers.
type World struct {
	Prog     *ssa.Program
	Pkgs     []*ssa.Package
	byPath   map[string]*ssa.Package
	mu       sync.Mutex
	methods  map[string]*ssa.Function
	intr     map[*ssa.Function]intrCacheEnt
	extraIntr map[string]intrFn
	InitAllow map[string]bool
	tainted  map[*ssa.Global]string
	LoadTime time.Duration
	Tags     string
	// statistics of what was executed (function → instruction count is too
	// costly; we record the set of functions entered)
	entered sync.Map
}

// LoadConfig describes how the harness program is loaded.
type LoadConfig struct {
	Dir      string            // module directory of the harness
	Patterns []string          // package patterns
	Tags     string            // build tags
	Overlay  map[string][]byte // virtual files (absolute path → content)
	Env      []string          // extra environment (e.g. GOOS=windows)
}

var stdInitAllow = []string{
	"io", "io/fs", "internal/oserror", "path/filepath", "internal/filepathlite", "path",
	"unicode/utf8", "strconv", "strings", "bytes", "sort", "slices", "hash", "cmp", "iter",
	"internal/stringslite", "internal/bytealg", "math/bits", "internal/itoa",
}

func Load(lc LoadConfig) (*World, error) {
	t0 := time.Now()
	env := append(os.Environ(), "GOFLAGS=-mod=mod", "GOPROXY=off", "GOSUMDB=off", "GOTOOLCHAIN=local")
	env = append(env, lc.Env...)
	cfg := &packages.Config{Mode: packages.LoadAllSyntax, Dir: lc.Dir, Overlay: lc.Overlay, Env: env}
	if lc.Tags != "" {
		cfg.BuildFlags = []string{"-tags=" + lc.Tags}
	}
	pkgs, err := packages.Load(cfg, lc.Patterns...)
	if err != nil {
		return nil, err
	}
	nerr := 0
	packages.Visit(pkgs, nil, func(p *packages.Package) {
		for _, e := range p.Errors {
			fmt.Fprintln(os.Stderr, "load error:", e)
			nerr++
		}
	})
	if nerr > 0 {
		return nil, fmt.Errorf("%d package load errors", nerr)
	}
	prog, spkgs := ssautil.AllPackages(pkgs, ssa.InstantiateGenerics)
	prog.Build()
	w := &World{Prog: prog, byPath: map[string]*ssa.Package{}, methods: map[string]*ssa.Function{},
		intr: map[*ssa.Function]intrCacheEnt{}, extraIntr: map[string]intrFn{}, InitAllow: map[string]bool{},
		tainted: map[*ssa.Global]string{}, Tags: lc.Tags}
	for _, p := range spkgs {
		if p != nil {
			w.Pkgs = append(w.Pkgs, p)
		}
	}
	for _, p := range prog.AllPackages() {
		w.byPath[p.Pkg.Path()] = p
	}
	for _, p := range stdInitAllow {
		w.InitAllow[p] = true
	}
	// globals written by initializers we do not run are "tainted": reading one is UNSUPPORTED
	for _, p := range prog.AllPackages() {
		if w.initAllowed(p.Pkg.Path()) {
			continue
		}
		for _, m := range p.Members {
			f, ok := m.(*ssa.Function)
			if !ok || !(f.Name() == "init" || strings.HasPrefix(f.Name(), "init#")) {
				continue
			}
			for _, b := range f.Blocks {
				for _, ins := range b.Instrs {
					for _, op := range ins.Operands(nil) {
						if g, ok := (*op).(*ssa.Global); ok && g.Pkg == p && !strings.HasPrefix(g.Name(), "init$") {
							w.tainted[g] = p.Pkg.Path()
						}
					}
				}
			}
		}
	}
	w.LoadTime = time.Since(t0)
	return w, nil
}

func (w *World) initAllowed(path string) bool {
	if strings.HasPrefix(path, "github.com/avfs/avfs") || strings.HasPrefix(path, "verif/") || path == "verif" {
		return true
	}
	return w.InitAllow[path]
}

func (w *World) Package(path string) *ssa.Package { return w.byPath[path] }

func (w *World) fn(pkg, name string) *ssa.Function {
	p := w.byPath[pkg]
	if p == nil {
		return nil
	}
	return p.Func(name)
}

func (w *World) Func(pkg, name string) *ssa.Function { return w.fn(pkg, name) }

func (w *World) intrLookup(fn *ssa.Function) (intrCacheEnt, bool) {
	w.mu.Lock()
	e, ok := w.intr[fn]
	w.mu.Unlock()
	return e, ok
}

func (w *World) intrStore(fn *ssa.Function, e intrCacheEnt) {
	w.mu.Lock()
	w.intr[fn] = e
	w.mu.Unlock()
}

// AddIntrinsic registers an extra modelled function (by ssa function String()).
func (w *World) AddIntrinsic(name string, f func(in *Interp, args []Value) Value) {
	w.extraIntr[name] = func(in *Interp, fn *ssa.Function, args []Value, _ *frame) Value { return f(in, args) }
}

// EnteredFunctions returns the set of functions interpreted so far, grouped by package.
func (w *World) EnteredFunctions() map[string][]string {
	res := map[string][]string{}
	w.entered.Range(func(k, _ any) bool {
		f := k.(*ssa.Function)
		p := "?"
		if f.Pkg != nil {
			p = f.Pkg.Pkg.Path()
		} else if o := f.Origin(); o != nil && o.Pkg != nil {
			p = o.Pkg.Pkg.Path()
		}
		res[p] = append(res[p], f.String())
		return true
	})
	for _, v := range res {
		sort.Strings(v)
	}
	return res
}

func (w *World) taintedBy(g *ssa.Global) (string, bool) {
	w.mu.Lock()
	p, ok := w.tainted[g]
	w.mu.Unlock()
	return p, ok
}
