package engine

import "fmt"

// Happens-before (vector clock) data-race monitor over interpreted heap cells.
// Enabled by Config.Race. Objects get metadata lazily on first access; only
// accesses made while more than one thread exists (or existed) are tracked.

type objMeta struct {
	wT, wC int   // last write epoch (thread, clock)
	wAt    string
	rVC    []int // per-thread clock of last read
	rAt    []string
}

type RaceReport struct {
	Kind string
	A, B string
}

func vcGet(vc []int, i int) int {
	if i < len(vc) {
		return vc[i]
	}
	return 0
}

func vcSet(vc []int, i, v int) []int {
	for len(vc) <= i {
		vc = append(vc, 0)
	}
	vc[i] = v
	return vc
}

func vcJoin(a, b []int) []int {
	for i, v := range b {
		if vcGet(a, i) < v {
			a = vcSet(a, i, v)
		}
	}
	return a
}

func (in *Interp) raceOn() bool { return in.cfg.Race && len(in.threads) > 1 }

func (in *Interp) raceNew(o *Obj)     {}
func (in *Interp) raceNewMap(m *MapV) {}

func (in *Interp) raceFork(parent, child *Thread) {
	if !in.cfg.Race {
		return
	}
	if parent != nil {
		parent.vc = vcSet(parent.vc, parent.id, vcGet(parent.vc, parent.id)+1)
		child.vc = append([]int(nil), parent.vc...)
	}
	child.vc = vcSet(child.vc, child.id, 1)
}

func (in *Interp) raceJoin(waiter *Thread, vc []int) {
	if !in.cfg.Race {
		return
	}
	waiter.vc = vcJoin(waiter.vc, vc)
}

func (in *Interp) raceAcquire(th *Thread, rel []int) {
	if !in.cfg.Race || rel == nil {
		return
	}
	th.vc = vcJoin(th.vc, rel)
}

// raceRelease returns the new release clock of a sync object. For a write
// unlock the clock is replaced∪joined; for a read unlock it is joined.
func (in *Interp) raceRelease(th *Thread, rel []int, _ bool) []int {
	if !in.cfg.Race {
		return rel
	}
	rel = vcJoin(append([]int(nil), rel...), th.vc)
	th.vc = vcSet(th.vc, th.id, vcGet(th.vc, th.id)+1)
	return rel
}

func (in *Interp) raceReport(kind, a, b string) {
	if in.abort == nil {
		in.abort = &pathEnd{kind: "RACE", reason: fmt.Sprintf("%s: %s || %s", kind, a, b)}
	}
	if in.cur.id == 0 {
		panic(in.abort)
	}
	in.wakeMainOrPanic(in.cur)
}

func (in *Interp) raceCheckRead(m **objMeta) {
	th := in.cur
	if *m == nil {
		*m = &objMeta{wT: -1}
	}
	md := *m
	if md.wT >= 0 && md.wT != th.id && vcGet(th.vc, md.wT) < md.wC {
		in.raceReport("read-after-write", in.site(), md.wAt)
	}
	md.rVC = vcSet(md.rVC, th.id, vcGet(th.vc, th.id))
	for len(md.rAt) <= th.id {
		md.rAt = append(md.rAt, "")
	}
	md.rAt[th.id] = in.site()
}

func (in *Interp) raceCheckWrite(m **objMeta) {
	th := in.cur
	if *m == nil {
		*m = &objMeta{wT: -1}
	}
	md := *m
	if md.wT >= 0 && md.wT != th.id && vcGet(th.vc, md.wT) < md.wC {
		in.raceReport("write-after-write", in.site(), md.wAt)
	}
	for t, c := range md.rVC {
		if t != th.id && c > 0 && vcGet(th.vc, t) < c {
			in.raceReport("write-after-read", in.site(), md.rAt[t])
		}
	}
	md.wT, md.wC, md.wAt = th.id, vcGet(th.vc, th.id), in.site()
	md.rVC = md.rVC[:0]
}

func (in *Interp) raceRead(o *Obj) {
	if !in.raceOn() {
		return
	}
	if o.agg {
		for _, k := range o.kids {
			in.raceRead(k)
		}
		return
	}
	in.raceCheckRead(&o.meta)
}

func (in *Interp) raceWrite(o *Obj) {
	if !in.raceOn() {
		return
	}
	if o.agg {
		for _, k := range o.kids {
			in.raceWrite(k)
		}
		return
	}
	in.raceCheckWrite(&o.meta)
}

func (in *Interp) raceReadMap(m *MapV) {
	if !in.raceOn() {
		return
	}
	in.raceCheckRead(&m.meta)
}

func (in *Interp) raceWriteMap(m *MapV) {
	if !in.raceOn() {
		return
	}
	in.raceCheckWrite(&m.meta)
}
