// Package engine is symgo: a symbolic executor for Go SSA (go/ssa) that turns
// harness inputs into SMT bit-vector terms, forks at symbolic branches after
// solver feasibility queries, and asks the solver pc ∧ ¬assertion for every
// harness assertion on every explored path.
package engine

import (
	"fmt"
	"strconv"
	"strings"
)

// Term is a hash-consed SMT term of sort Bool (w==0) or (_ BitVec w).
type Term struct {
	op   string
	args []*Term
	w    int
	name string // var name, or indexed-op parameter text
	c    uint64
	id   int
}

// TM is a per-path term manager (hash-consing table).
type TM struct {
	tab map[string]*Term
	seq int
	t   *Term
	f   *Term
}

func newTM() *TM {
	tm := &TM{tab: make(map[string]*Term, 1024)}
	tm.t = tm.mk("true", 0, "", 0)
	tm.f = tm.mk("false", 0, "", 0)
	return tm
}

func (tm *TM) mk(op string, w int, name string, c uint64, args ...*Term) *Term {
	var sb strings.Builder
	sb.Grow(24 + 6*len(args))
	sb.WriteString(op)
	sb.WriteByte('|')
	sb.WriteString(strconv.Itoa(w))
	sb.WriteByte('|')
	sb.WriteString(name)
	sb.WriteByte('|')
	sb.WriteString(strconv.FormatUint(c, 16))
	for _, a := range args {
		sb.WriteByte(',')
		sb.WriteString(strconv.Itoa(a.id))
	}
	k := sb.String()
	if t, ok := tm.tab[k]; ok {
		return t
	}
	tm.seq++
	t := &Term{op: op, args: append([]*Term(nil), args...), w: w, name: name, c: c, id: tm.seq}
	tm.tab[k] = t
	return t
}

func mask(w int) uint64 {
	if w >= 64 {
		return ^uint64(0)
	}
	return (uint64(1) << uint(w)) - 1
}

func (tm *TM) Var(name string, w int) *Term { return tm.mk("var", w, name, 0) }
func (tm *TM) Const(c uint64, w int) *Term  { return tm.mk("const", w, "", c&mask(w)) }
func (tm *TM) Bool(b bool) *Term {
	if b {
		return tm.t
	}
	return tm.f
}

func (t *Term) IsConst() bool { return t.op == "const" || t.op == "true" || t.op == "false" }
func (t *Term) IsTrue() bool  { return t.op == "true" }
func (t *Term) IsFalse() bool { return t.op == "false" }

func (tm *TM) Not(a *Term) *Term {
	switch a.op {
	case "true":
		return tm.f
	case "false":
		return tm.t
	case "not":
		return a.args[0]
	}
	return tm.mk("not", 0, "", 0, a)
}

func (tm *TM) And(a, b *Term) *Term {
	if a.op == "true" {
		return b
	}
	if b.op == "true" {
		return a
	}
	if a.op == "false" || b.op == "false" {
		return tm.f
	}
	if a == b {
		return a
	}
	return tm.mk("and", 0, "", 0, a, b)
}

func (tm *TM) Or(a, b *Term) *Term {
	if a.op == "false" {
		return b
	}
	if b.op == "false" {
		return a
	}
	if a.op == "true" || b.op == "true" {
		return tm.t
	}
	if a == b {
		return a
	}
	return tm.mk("or", 0, "", 0, a, b)
}

func (tm *TM) Ite(c, a, b *Term) *Term {
	if c.op == "true" {
		return a
	}
	if c.op == "false" {
		return b
	}
	if a == b {
		return a
	}
	if a.w == 0 {
		if a.op == "true" && b.op == "false" {
			return c
		}
		if a.op == "false" && b.op == "true" {
			return tm.Not(c)
		}
	}
	return tm.mk("ite", a.w, "", 0, c, a, b)
}

func (tm *TM) Eq(a, b *Term) *Term {
	if a == b {
		return tm.t
	}
	if a.IsConst() && b.IsConst() {
		if a.w == 0 {
			return tm.Bool(a.op == b.op)
		}
		return tm.Bool(a.c == b.c)
	}
	if a.w != b.w {
		panic(fmt.Sprintf("Eq width mismatch %d %d: %s %s", a.w, b.w, a.op, b.op))
	}
	if a.w == 0 {
		if b.op == "true" {
			return a
		}
		if b.op == "false" {
			return tm.Not(a)
		}
		if a.op == "true" {
			return b
		}
		if a.op == "false" {
			return tm.Not(b)
		}
	}
	if a.id > b.id {
		a, b = b, a
	}
	return tm.mk("=", 0, "", 0, a, b)
}

// Bin builds a bit-vector binary operation with constant folding.
func (tm *TM) Bin(op string, a, b *Term) *Term {
	if a.w != b.w {
		panic(fmt.Sprintf("Bin %s width mismatch %d %d", op, a.w, b.w))
	}
	if a.op == "const" && b.op == "const" {
		if r, ok := evalBin(op, a.c, b.c, a.w); ok {
			return tm.Const(r, a.w)
		}
	}
	// light algebraic identities
	switch op {
	case "bvadd", "bvor", "bvxor":
		if a.op == "const" && a.c == 0 {
			return b
		}
		if b.op == "const" && b.c == 0 {
			return a
		}
	case "bvsub", "bvshl", "bvlshr", "bvashr":
		if b.op == "const" && b.c == 0 {
			return a
		}
	case "bvand":
		if (a.op == "const" && a.c == 0) || (b.op == "const" && b.c == 0) {
			return tm.Const(0, a.w)
		}
		if a.op == "const" && a.c == mask(a.w) {
			return b
		}
		if b.op == "const" && b.c == mask(a.w) {
			return a
		}
	case "bvmul":
		if a.op == "const" && a.c == 1 {
			return b
		}
		if b.op == "const" && b.c == 1 {
			return a
		}
	}
	return tm.mk(op, a.w, "", 0, a, b)
}

// Cmp builds a comparison (result Bool).
func (tm *TM) Cmp(op string, a, b *Term) *Term {
	if a.w != b.w {
		panic(fmt.Sprintf("Cmp %s width mismatch %d %d", op, a.w, b.w))
	}
	if a.op == "const" && b.op == "const" {
		return tm.Bool(evalCmp(op, a.c, b.c, a.w))
	}
	if a == b {
		switch op {
		case "bvult", "bvslt", "bvugt", "bvsgt":
			return tm.f
		default:
			return tm.t
		}
	}
	return tm.mk(op, 0, "", 0, a, b)
}

func (tm *TM) BvNot(a *Term) *Term {
	if a.op == "const" {
		return tm.Const(^a.c, a.w)
	}
	return tm.mk("bvnot", a.w, "", 0, a)
}

func (tm *TM) BvNeg(a *Term) *Term {
	if a.op == "const" {
		return tm.Const(-a.c, a.w)
	}
	return tm.mk("bvneg", a.w, "", 0, a)
}

// Resize converts a to width w (sign- or zero-extending, or truncating).
func (tm *TM) Resize(a *Term, w int, signed bool) *Term {
	if a.w == w {
		return a
	}
	if a.op == "const" {
		v := a.c
		if w > a.w && signed && a.w > 0 && v&(1<<uint(a.w-1)) != 0 {
			v |= ^mask(a.w)
		}
		return tm.Const(v, w)
	}
	if w > a.w {
		if signed {
			return tm.mk("sext", w, strconv.Itoa(w-a.w), 0, a)
		}
		return tm.mk("zext", w, strconv.Itoa(w-a.w), 0, a)
	}
	return tm.mk("extract", w, strconv.Itoa(w-1), 0, a)
}

func sx(v uint64, w int) int64 {
	if w < 64 && v&(1<<uint(w-1)) != 0 {
		v |= ^mask(w)
	}
	return int64(v)
}

func evalBin(op string, a, b uint64, w int) (uint64, bool) {
	m := mask(w)
	a &= m
	b &= m
	switch op {
	case "bvadd":
		return (a + b) & m, true
	case "bvsub":
		return (a - b) & m, true
	case "bvmul":
		return (a * b) & m, true
	case "bvand":
		return a & b, true
	case "bvor":
		return a | b, true
	case "bvxor":
		return a ^ b, true
	case "bvshl":
		if b >= uint64(w) {
			return 0, true
		}
		return (a << b) & m, true
	case "bvlshr":
		if b >= uint64(w) {
			return 0, true
		}
		return a >> b, true
	case "bvashr":
		s := sx(a, w)
		if b >= uint64(w) {
			if s < 0 {
				return m, true
			}
			return 0, true
		}
		return uint64(s>>b) & m, true
	case "bvudiv":
		if b == 0 {
			return m, true
		}
		return a / b, true
	case "bvurem":
		if b == 0 {
			return a, true
		}
		return a % b, true
	case "bvsdiv":
		sa, sb := sx(a, w), sx(b, w)
		if sb == 0 {
			if sa < 0 {
				return 1, true
			}
			return m, true
		}
		if sb == -1 {
			return uint64(-sa) & m, true
		}
		return uint64(sa/sb) & m, true
	case "bvsrem":
		sa, sb := sx(a, w), sx(b, w)
		if sb == 0 {
			return a, true
		}
		if sb == -1 {
			return 0, true
		}
		return uint64(sa%sb) & m, true
	}
	return 0, false
}

func evalCmp(op string, a, b uint64, w int) bool {
	m := mask(w)
	a &= m
	b &= m
	switch op {
	case "bvult":
		return a < b
	case "bvule":
		return a <= b
	case "bvugt":
		return a > b
	case "bvuge":
		return a >= b
	case "bvslt":
		return sx(a, w) < sx(b, w)
	case "bvsle":
		return sx(a, w) <= sx(b, w)
	case "bvsgt":
		return sx(a, w) > sx(b, w)
	case "bvsge":
		return sx(a, w) >= sx(b, w)
	}
	panic("evalCmp " + op)
}

// Eval evaluates t under a model (variable name → value; missing = 0).
func (t *Term) Eval(model map[string]uint64, memo map[*Term]uint64) uint64 {
	if v, ok := memo[t]; ok {
		return v
	}
	var r uint64
	switch t.op {
	case "var":
		r = model[t.name] & mask(maxw(t.w))
	case "const":
		r = t.c
	case "true":
		r = 1
	case "false":
		r = 0
	case "not":
		r = 1 - t.args[0].Eval(model, memo)
	case "and":
		r = t.args[0].Eval(model, memo) & t.args[1].Eval(model, memo)
	case "or":
		r = t.args[0].Eval(model, memo) | t.args[1].Eval(model, memo)
	case "ite":
		if t.args[0].Eval(model, memo) != 0 {
			r = t.args[1].Eval(model, memo)
		} else {
			r = t.args[2].Eval(model, memo)
		}
	case "=":
		if t.args[0].Eval(model, memo) == t.args[1].Eval(model, memo) {
			r = 1
		}
	case "bvnot":
		r = ^t.args[0].Eval(model, memo) & mask(t.w)
	case "bvneg":
		r = -t.args[0].Eval(model, memo) & mask(t.w)
	case "zext":
		r = t.args[0].Eval(model, memo)
	case "sext":
		r = uint64(sx(t.args[0].Eval(model, memo), t.args[0].w)) & mask(t.w)
	case "extract":
		r = t.args[0].Eval(model, memo) & mask(t.w)
	case "bvult", "bvule", "bvugt", "bvuge", "bvslt", "bvsle", "bvsgt", "bvsge":
		if evalCmp(t.op, t.args[0].Eval(model, memo), t.args[1].Eval(model, memo), t.args[0].w) {
			r = 1
		}
	default:
		v, ok := evalBin(t.op, t.args[0].Eval(model, memo), t.args[1].Eval(model, memo), t.w)
		if !ok {
			panic("Eval: unknown op " + t.op)
		}
		r = v
	}
	memo[t] = r
	return r
}

func maxw(w int) int {
	if w == 0 {
		return 1
	}
	return w
}

// SMT renders the term as SMT-LIB2 text; shared sub-terms are let-bound.
func (t *Term) SMT() string {
	uses := map[*Term]int{}
	var order []*Term
	var visit func(x *Term)
	visit = func(x *Term) {
		uses[x]++
		if uses[x] > 1 {
			return
		}
		for _, a := range x.args {
			visit(a)
		}
		order = append(order, x)
	}
	visit(t)
	names := map[*Term]string{}
	var sb strings.Builder
	var pr func(x *Term, top bool)
	pr = func(x *Term, top bool) {
		if !top {
			if n, ok := names[x]; ok {
				sb.WriteString(n)
				return
			}
		}
		switch x.op {
		case "var":
			sb.WriteString(x.name)
			return
		case "const":
			fmt.Fprintf(&sb, "(_ bv%d %d)", x.c, x.w)
			return
		case "true", "false":
			sb.WriteString(x.op)
			return
		}
		sb.WriteByte('(')
		switch x.op {
		case "zext":
			fmt.Fprintf(&sb, "(_ zero_extend %s)", x.name)
		case "sext":
			fmt.Fprintf(&sb, "(_ sign_extend %s)", x.name)
		case "extract":
			fmt.Fprintf(&sb, "(_ extract %s 0)", x.name)
		default:
			sb.WriteString(x.op)
		}
		for _, a := range x.args {
			sb.WriteByte(' ')
			pr(a, false)
		}
		sb.WriteByte(')')
	}
	nlet := 0
	for _, x := range order {
		if x != t && uses[x] > 1 && len(x.args) > 0 {
			n := fmt.Sprintf("l!%d", x.id)
			sb.WriteString("(let ((")
			sb.WriteString(n)
			sb.WriteByte(' ')
			pr(x, true)
			sb.WriteString(")) ")
			names[x] = n
			nlet++
		}
	}
	pr(t, true)
	for i := 0; i < nlet; i++ {
		sb.WriteByte(')')
	}
	return sb.String()
}

// Vars collects the variable names occurring in t.
func (t *Term) Vars(into map[string]int, seen map[*Term]bool) {
	if seen[t] {
		return
	}
	seen[t] = true
	if t.op == "var" {
		into[t.name] = t.w
		return
	}
	for _, a := range t.args {
		a.Vars(into, seen)
	}
}
