package engine

import (
	"fmt"
)

// Threads: every interpreted goroutine runs in a real goroutine, but exactly one
// runs at a time (baton passing). Scheduling points: before Lock/RLock, at
// atomics, at blocking operations, at thread start and exit. The next thread is
// an enumeration point (choose), limited by the pre-emption bound.

type lockState struct {
	writer  *Thread
	readers map[*Thread]int
	pending int // writers waiting
	relVC   []int
	where   string
}

type wgState struct {
	n     int64
	relVC []int
}

type threadAbort struct{}

func (in *Interp) newThread() *Thread {
	th := &Thread{id: len(in.threads), in: in, resume: make(chan struct{}, 1)}
	th.vc = make([]int, 0, 4)
	in.threads = append(in.threads, th)
	return th
}

// spawn starts a new interpreted thread running f.
func (in *Interp) spawn(f func()) {
	parent := in.cur
	th := in.newThread()
	in.raceFork(parent, th)
	in.thrWG.Add(1)
	go func() {
		defer in.thrWG.Done()
		<-th.resume
		defer func() {
			r := recover()
			th.done = true
			switch e := r.(type) {
			case nil:
			case threadAbort:
				return
			case *pathEnd:
				if in.abort == nil {
					in.abort = e
				}
			case *targetPanic:
				if in.abort == nil {
					in.abort = &pathEnd{kind: "GOPANIC", reason: e.class + ": " + e.msg + " @ " + e.site}
					in.abortTP = e
				}
			default:
				if in.abort == nil {
					in.abort = &pathEnd{kind: "ENGINE", reason: fmt.Sprint(r)}
				}
			}
			// hand the baton on
			in.handoff(th)
		}()
		if in.abort != nil {
			panic(threadAbort{})
		}
		in.cur = th
		f()
	}()
	// thread creation is a scheduling point
	in.yield("go")
}

// runnable threads (not done, not blocked)
func (in *Interp) runnable() []*Thread {
	var r []*Thread
	for _, t := range in.threads {
		if t.done {
			continue
		}
		if t.blocked != nil && !t.blocked() {
			continue
		}
		r = append(r, t)
	}
	return r
}

// handoff is called by a finished thread: pick another thread and wake it.
func (in *Interp) handoff(from *Thread) {
	if in.abort != nil {
		in.threads[0].resume <- struct{}{}
		return
	}
	rs := in.runnable()
	if len(rs) == 0 {
		live := false
		for _, t := range in.threads {
			if !t.done {
				live = true
			}
		}
		if live {
			in.abort = &pathEnd{kind: "DEADLOCK", reason: in.deadlockDesc()}
		}
		in.threads[0].resume <- struct{}{}
		return
	}
	k := in.chooseSafe(len(rs))
	if k < 0 {
		in.threads[0].resume <- struct{}{}
		return
	}
	next := rs[k]
	next.resume <- struct{}{}
}

// chooseSafe is choose() that converts an engine panic into an abort (used on
// goroutine exit paths where panicking is not possible).
func (in *Interp) chooseSafe(n int) (k int) {
	defer func() {
		if r := recover(); r != nil {
			if e, ok := r.(*pathEnd); ok {
				in.abort = e
			} else {
				in.abort = &pathEnd{kind: "ENGINE", reason: fmt.Sprint(r)}
			}
			k = -1
		}
	}()
	return in.choose(n)
}

func (in *Interp) deadlockDesc() string {
	s := ""
	for _, t := range in.threads {
		if !t.done && t.blocked != nil {
			if s != "" {
				s += "; "
			}
			s += fmt.Sprintf("T%d waits %s", t.id, t.blockAt)
		}
	}
	return s
}

// yield is a scheduling point for the current thread.
func (in *Interp) yield(why string) {
	if len(in.threads) <= 1 {
		th := in.cur
		if th.blocked != nil && !th.blocked() {
			in.abort = &pathEnd{kind: "DEADLOCK", reason: in.deadlockDesc()}
			panic(in.abort)
		}
		return
	}
	th := in.cur
	rs := in.runnable()
	if len(rs) == 0 {
		in.abort = &pathEnd{kind: "DEADLOCK", reason: in.deadlockDesc()}
		in.wakeMainOrPanic(th)
		return
	}
	selfRunnable := false
	for _, t := range rs {
		if t == th {
			selfRunnable = true
		}
	}
	var next *Thread
	if selfRunnable && in.preempts >= in.cfg.Preempt {
		next = th
	} else if len(rs) == 1 {
		next = rs[0]
	} else {
		// order: current thread first so that choice 0 = no pre-emption
		ord := make([]*Thread, 0, len(rs))
		if selfRunnable {
			ord = append(ord, th)
		}
		for _, t := range rs {
			if t != th {
				ord = append(ord, t)
			}
		}
		next = ord[in.choose(len(ord))]
		if selfRunnable && next != th {
			in.preempts++
		}
	}
	if next == th {
		return
	}
	next.resume <- struct{}{}
	<-th.resume
	in.cur = th
	if in.abort != nil {
		if th.id == 0 {
			panic(in.abort)
		}
		panic(threadAbort{})
	}
}

func (in *Interp) wakeMainOrPanic(th *Thread) {
	if th.id == 0 {
		panic(in.abort)
	}
	in.threads[0].resume <- struct{}{}
	// this thread is parked forever; it is released by killThreads
	<-th.resume
	panic(threadAbort{})
}

// block parks the current thread until cond() holds.
func (in *Interp) block(cond func() bool, at string) {
	th := in.cur
	for !cond() {
		th.blocked = cond
		th.blockAt = at
		in.yield("block")
	}
	th.blocked = nil
	th.blockAt = ""
}

// killThreads releases every parked thread at the end of a path.
func (in *Interp) killThreads() {
	if len(in.threads) <= 1 {
		return
	}
	if in.abort == nil {
		in.abort = &pathEnd{kind: "ABORT", reason: "path finished"}
	}
	for _, t := range in.threads[1:] {
		if !t.done {
			select {
			case t.resume <- struct{}{}:
			default:
			}
		}
	}
	// a dying thread hands the baton to thread 0's channel; drain it
	doneCh := make(chan struct{})
	go func() { in.thrWG.Wait(); close(doneCh) }()
	for {
		select {
		case <-doneCh:
			select {
			case <-in.threads[0].resume:
			default:
			}
			return
		case <-in.threads[0].resume:
		}
	}
}

func (in *Interp) lockOf(o *Obj) *lockState {
	ls := in.locks[o]
	if ls == nil {
		ls = &lockState{readers: map[*Thread]int{}}
		in.locks[o] = ls
	}
	return ls
}

func (in *Interp) mutexLock(o *Obj, at string) {
	if o == nil {
		in.tpanic("nil-deref", "Lock on nil mutex")
	}
	ls := in.lockOf(o)
	in.yield("lock")
	th := in.cur
	if ls.writer != nil || len(ls.readers) > 0 {
		ls.pending++
		in.block(func() bool { return ls.writer == nil && len(ls.readers) == 0 }, "Lock@"+at+" held-by:"+ls.holder())
		ls.pending--
	}
	ls.writer = th
	ls.where = at
	in.raceAcquire(th, ls.relVC)
}

func (ls *lockState) holder() string {
	if ls.writer != nil {
		return fmt.Sprintf("T%d(w)@%s", ls.writer.id, ls.where)
	}
	s := ""
	for t := range ls.readers {
		s += fmt.Sprintf("T%d(r)", t.id)
	}
	return s + "@" + ls.where
}

func (in *Interp) mutexTryLock(o *Obj, at string) bool {
	ls := in.lockOf(o)
	in.yield("trylock")
	if ls.writer != nil || len(ls.readers) > 0 {
		return false
	}
	ls.writer = in.cur
	ls.where = at
	in.raceAcquire(in.cur, ls.relVC)
	return true
}

func (in *Interp) mutexUnlock(o *Obj) {
	if o == nil {
		in.tpanic("nil-deref", "Unlock on nil mutex")
	}
	ls := in.lockOf(o)
	if ls.writer == nil {
		// fatal error: sync: unlock of unlocked mutex (not recoverable in Go)
		in.abort = &pathEnd{kind: "FATAL", reason: "sync: unlock of unlocked mutex"}
		if in.cur.id == 0 {
			panic(in.abort)
		}
		in.wakeMainOrPanic(in.cur)
	}
	ls.relVC = in.raceRelease(in.cur, ls.relVC, true)
	ls.writer = nil
}

func (in *Interp) mutexRLock(o *Obj, at string) {
	if o == nil {
		in.tpanic("nil-deref", "RLock on nil mutex")
	}
	ls := in.lockOf(o)
	in.yield("rlock")
	th := in.cur
	if ls.writer != nil || ls.pending > 0 {
		in.block(func() bool { return ls.writer == nil && ls.pending == 0 }, "RLock@"+at+" held-by:"+ls.holder())
	}
	ls.readers[th]++
	ls.where = at
	in.raceAcquire(th, ls.relVC)
}

func (in *Interp) mutexRUnlock(o *Obj) {
	ls := in.lockOf(o)
	th := in.cur
	// any reader slot may be released by any goroutine in Go; prefer own
	if ls.readers[th] > 0 {
		ls.readers[th]--
		if ls.readers[th] == 0 {
			delete(ls.readers, th)
		}
	} else {
		released := false
		for t, n := range ls.readers {
			if n > 0 {
				ls.readers[t]--
				if ls.readers[t] == 0 {
					delete(ls.readers, t)
				}
				released = true
				break
			}
		}
		if !released {
			in.abort = &pathEnd{kind: "FATAL", reason: "sync: RUnlock of unlocked RWMutex"}
			if in.cur.id == 0 {
				panic(in.abort)
			}
			in.wakeMainOrPanic(in.cur)
		}
	}
	ls.relVC = in.raceRelease(th, ls.relVC, false)
}

func (in *Interp) wgOf(o *Obj) *wgState {
	w := in.wgs[o]
	if w == nil {
		w = &wgState{}
		in.wgs[o] = w
	}
	return w
}
