package engine

import (
	"fmt"
	"go/constant"
	"go/token"
	"go/types"
	"strings"
	"sync"

	"golang.org/x/tools/go/ssa"
)

// pathEnd ends the current path for an engine-side reason (not a target panic).
type pathEnd struct {
	kind   string // INFEASIBLE, CUT, UNSUPPORTED, BUDGET, INCONCLUSIVE, DEADLOCK, ABORT, ASSUME
	reason string
}

// targetPanic is a panic of the interpreted program.
type targetPanic struct {
	class string // nil-deref, index, slice-bounds, nil-map, type-assert, explicit, div-zero, makeslice, unlock
	msg   string
	site  string // innermost avfs function (or function) in which it was raised
	val   Value
}

// Config bounds one exploration.
type Config struct {
	Budget    int // max SSA instructions per path
	MaxShape  int // max in-range values enumerated for one symbolic shape
	MaxAlloc  int // max elements of an allocation with symbolic size
	Preempt   int // pre-emption bound
	Race      bool
	MapOrder  bool // fork forward/reverse on map range
	MaxPaths  int
	SitePkgs  []string
}

func DefaultConfig() Config {
	return Config{Budget: 3000000, MaxShape: 16, MaxAlloc: 64, Preempt: 2, MaxPaths: 2000000}
}

type dec struct {
	B bool
	V uint64
}

type frame struct {
	fn         *ssa.Function
	env        map[ssa.Value]Value
	defers     []func()
	panicking  *targetPanic
	deferredBy *frame
	caller     *frame
}

// Interp holds the per-worker interpreter state; path state is reset per path.
type Interp struct {
	prog   *ssa.Program
	world  *World
	tm     *TM
	solver *Solver
	cfg    Config

	globals    map[*ssa.Global]*Obj
	globalSnap map[*ssa.Global]*Obj

	prefix    []dec
	decisions []dec
	pc        []*Term
	known     map[*Term]bool
	alts      [][]dec
	curVal    uint64
	steps     int
	clock     int64
	umask     int64
	lenient   bool
	lenientLog map[string]int

	// threads
	threads  []*Thread
	cur      *Thread
	abort    *pathEnd
	abortTP  *targetPanic
	locks    map[*Obj]*lockState
	wgs      map[*Obj]*wgState
	preempts int
	thrWG    sync.WaitGroup

	// harness-visible state
	nameCount map[string]int
	inputs    []InputDecl
	obs       []ObsEntry
	asserts   []AssertRec
	reach     map[string]bool
	label     string
	cuts      []string
	rnd       int
	usedRandom bool

	methodCache map[string]*ssa.Function
	enteredFns  map[*ssa.Function]int

	TotalSteps int64
}

type InputDecl struct {
	Name string `json:"name"`
	W    int    `json:"w"`
	Len  int    `json:"len,omitempty"` // for strings/bytes: number of bytes (vars Name[i])
	Kind string `json:"kind"`
}

type ObsEntry struct {
	Label string
	Val   Value
}

type AssertRec struct {
	Sig      string
	Verdict  int // 0 discharged (unsat), 1 violated (sat), -1 inconclusive
	Model    map[string]uint64
	Concrete bool // decided without the solver (condition was concrete)
}

type Thread struct {
	id      int
	in      *Interp
	resume  chan struct{}
	done    bool
	blocked func() bool // non-nil: runnable only when it returns true
	blockAt string
	top     *frame
	vc      []int
}

func (in *Interp) thread() *Thread { return in.cur }

// ---------- branching ----------

func (in *Interp) endPath(kind, reason string) {
	if kind == "CUT" || kind == "INCONCLUSIVE" || kind == "UNSUPPORTED" {
		reason += " @ " + in.site()
	}
	panic(&pathEnd{kind: kind, reason: reason})
}

// branch decides a symbolic condition, forking when both sides are feasible.
func (in *Interp) branch(c *Term) bool { return in.branchX(c, false) }

// branchX with force=true always consumes one decision slot (used by
// concretize, whose replay must stay aligned with the recorded values).
func (in *Interp) branchX(c *Term, force bool) bool {
	if !force {
		if c.op == "true" {
			return true
		}
		if c.op == "false" {
			return false
		}
		if v, ok := in.known[c]; ok {
			return v
		}
		if v, ok := in.known[in.tm.Not(c)]; ok {
			return !v
		}
	}
	var d bool
	if len(in.decisions) < len(in.prefix) {
		d = in.prefix[len(in.decisions)].B
	} else {
		canT := in.solver.CheckWith(c)
		if canT == Unknown {
			in.endPath("INCONCLUSIVE", "solver unknown at branch")
		}
		canF := Sat
		if canT == Sat {
			canF = in.solver.CheckWith(in.tm.Not(c))
			if canF == Unknown {
				in.endPath("INCONCLUSIVE", "solver unknown at branch")
			}
		}
		switch {
		case canT == Sat && canF == Sat:
			alt := make([]dec, len(in.decisions)+1)
			copy(alt, in.decisions)
			alt[len(in.decisions)] = dec{B: false, V: in.curVal}
			in.alts = append(in.alts, alt)
			d = true
		case canT == Sat:
			d = true
		default:
			// canT unsat: the path condition implies ¬c (pc itself is satisfiable)
			d = false
		}
	}
	in.decisions = append(in.decisions, dec{B: d, V: in.curVal})
	in.known[c] = d
	lit := c
	if !d {
		lit = in.tm.Not(c)
	}
	in.pc = append(in.pc, lit)
	in.solver.Assert(lit)
	return d
}

// choose returns a value in [0,n): an unconstrained enumeration point (no solver query).
func (in *Interp) choose(n int) int {
	if n <= 1 {
		return 0
	}
	var k int
	if len(in.decisions) < len(in.prefix) {
		k = int(in.prefix[len(in.decisions)].V)
	} else {
		for j := n - 1; j >= 1; j-- {
			alt := make([]dec, len(in.decisions)+1)
			copy(alt, in.decisions)
			alt[len(in.decisions)] = dec{B: true, V: uint64(j)}
			in.alts = append(in.alts, alt)
		}
		k = 0
	}
	in.decisions = append(in.decisions, dec{B: true, V: uint64(k)})
	return k
}

// concretize forks over the feasible values of a symbolic integer.
func (in *Interp) concretize(v Value, t types.Type) int64 {
	tt, ok := v.(*Term)
	if !ok {
		return v.(int64)
	}
	w := tt.w
	for n := 0; ; n++ {
		if n >= in.cfg.MaxShape {
			in.cuts = append(in.cuts, "shape")
			smt := tt.SMT()
			if len(smt) > 300 {
				smt = smt[:300]
			}
			in.endPath("CUT", "more than MaxShape values for a symbolic shape: "+smt)
		}
		var k uint64
		if len(in.decisions) < len(in.prefix) {
			k = in.prefix[len(in.decisions)].V
		} else {
			r := in.solver.Check()
			if r != Sat {
				in.endPath("INCONCLUSIVE", "solver not sat in concretize")
			}
			kv, ok := in.solver.TermValue(tt)
			if !ok {
				in.endPath("INCONCLUSIVE", "no value in concretize")
			}
			k = kv
		}
		in.curVal = k
		hit := in.branchX(in.tm.Eq(tt, in.tm.Const(k, w)), true)
		in.curVal = 0
		if hit {
			if isUnsigned(t) {
				return int64(k)
			}
			return sx(k, w)
		}
	}
}

func (in *Interp) cond(v Value) bool {
	switch x := v.(type) {
	case bool:
		return x
	case *Term:
		return in.branch(x)
	}
	panic(fmt.Sprintf("cond %T", v))
}

// ---------- values ----------

func (in *Interp) global(g *ssa.Global) *Obj {
	o, ok := in.globals[g]
	if !ok {
		o = newObj(g.Type().(*types.Pointer).Elem())
		in.globals[g] = o
	}
	return o
}

func (in *Interp) get(fr *frame, v ssa.Value) Value {
	switch x := v.(type) {
	case *ssa.Const:
		return in.constVal(x)
	case *ssa.Global:
		if p, bad := in.world.taintedBy(x); bad && !in.lenient {
			in.endPath("UNSUPPORTED", "global "+x.String()+" of package "+p+" whose initializer is not run")
		}
		return in.global(x)
	case *ssa.Function:
		return x
	case *ssa.Builtin:
		return x
	}
	r, ok := fr.env[v]
	if !ok {
		panic(fmt.Sprintf("no value for %s in %s", v.Name(), fr.fn))
	}
	return r
}

func (in *Interp) constVal(c *ssa.Const) Value {
	if c.Value == nil {
		return zero(c.Type())
	}
	t := c.Type().Underlying()
	if b, ok := t.(*types.Basic); ok {
		switch {
		case b.Info()&types.IsBoolean != 0:
			return constant.BoolVal(c.Value)
		case b.Info()&types.IsString != 0:
			return sstr(constant.StringVal(c.Value))
		case b.Info()&types.IsInteger != 0:
			if b.Info()&types.IsUnsigned != 0 {
				u, _ := constant.Uint64Val(constant.ToInt(c.Value))
				return int64(u)
			}
			i, _ := constant.Int64Val(constant.ToInt(c.Value))
			return i
		case b.Info()&types.IsFloat != 0:
			f, _ := constant.Float64Val(c.Value)
			return f
		}
	}
	if _, ok := t.(*types.TypeParam); ok {
		panic("const of type parameter")
	}
	panic(fmt.Sprintf("const %v : %v", c, c.Type()))
}

func (in *Interp) toTerm(v Value, w int) *Term {
	switch x := v.(type) {
	case *Term:
		return x
	case int64:
		return in.tm.Const(uint64(x), w)
	case bool:
		return in.tm.Bool(x)
	}
	panic(fmt.Sprintf("toTerm %T", v))
}

func (in *Interp) fromTerm(t *Term, typ types.Type) Value {
	switch t.op {
	case "true":
		return true
	case "false":
		return false
	case "const":
		if isUnsigned(typ) {
			return int64(t.c)
		}
		return sx(t.c, t.w)
	}
	return t
}

func (in *Interp) not(v Value) Value {
	switch x := v.(type) {
	case bool:
		return !x
	case *Term:
		return in.fromTerm(in.tm.Not(x), types.Typ[types.Bool])
	}
	panic(fmt.Sprintf("not %T", v))
}

func (in *Interp) strEq(sx, sy SStr) Value {
	if len(sx) != len(sy) {
		return false
	}
	acc := in.tm.t
	for i := range sx {
		a, aok := sx[i].(int64)
		b, bok := sy[i].(int64)
		if aok && bok {
			if a != b {
				return false
			}
			continue
		}
		acc = in.tm.And(acc, in.tm.Eq(in.toTerm(sx[i], 8), in.toTerm(sy[i], 8)))
	}
	return in.fromTerm(acc, types.Typ[types.Bool])
}

// strLess builds the lexicographic a<b (or a<=b when orEq) term.
func (in *Interp) strLess(a, b SStr, orEq bool) Value {
	n := len(a)
	if len(b) < n {
		n = len(b)
	}
	var tail *Term
	if len(a) < len(b) || (orEq && len(a) == len(b)) {
		tail = in.tm.t
	} else {
		tail = in.tm.f
	}
	acc := tail
	for i := n - 1; i >= 0; i-- {
		x, y := in.toTerm(a[i], 8), in.toTerm(b[i], 8)
		acc = in.tm.Ite(in.tm.Cmp("bvult", x, y), in.tm.t, in.tm.Ite(in.tm.Eq(x, y), acc, in.tm.f))
	}
	return in.fromTerm(acc, types.Typ[types.Bool])
}

func (in *Interp) binop(op token.Token, x, y Value, xt, yt types.Type) Value {
	if sxv, ok := x.(SStr); ok {
		syv := y.(SStr)
		switch op {
		case token.ADD:
			r := make(SStr, 0, len(sxv)+len(syv))
			r = append(r, sxv...)
			return append(r, syv...)
		case token.EQL:
			return in.strEq(sxv, syv)
		case token.NEQ:
			return in.not(in.strEq(sxv, syv))
		case token.LSS:
			return in.strLess(sxv, syv, false)
		case token.LEQ:
			return in.strLess(sxv, syv, true)
		case token.GTR:
			return in.strLess(syv, sxv, false)
		case token.GEQ:
			return in.strLess(syv, sxv, true)
		}
		panic("string op " + op.String())
	}
	t := xt
	switch a := x.(type) {
	case bool:
		if b, ok := y.(bool); ok {
			switch op {
			case token.EQL:
				return a == b
			case token.NEQ:
				return a != b
			case token.AND:
				return a && b
			case token.OR:
				return a || b
			}
		}
	case float64:
		b := y.(float64)
		switch op {
		case token.ADD:
			return a + b
		case token.SUB:
			return a - b
		case token.MUL:
			return a * b
		case token.QUO:
			return a / b
		case token.EQL:
			return a == b
		case token.NEQ:
			return a != b
		case token.LSS:
			return a < b
		case token.LEQ:
			return a <= b
		case token.GTR:
			return a > b
		case token.GEQ:
			return a >= b
		}
	case int64:
		if b, ok := y.(int64); ok {
			uns := isUnsigned(t)
			switch op {
			case token.ADD:
				return norm(a+b, t)
			case token.SUB:
				return norm(a-b, t)
			case token.MUL:
				return norm(a*b, t)
			case token.AND:
				return a & b
			case token.OR:
				return a | b
			case token.XOR:
				return norm(a^b, t)
			case token.AND_NOT:
				return a &^ b
			case token.SHL:
				if !isUnsigned(yt) && b < 0 {
					in.tpanic("shift", "negative shift amount")
				}
				if uint64(b) >= 64 {
					return int64(0)
				}
				return norm(a<<uint64(b), t)
			case token.SHR:
				if !isUnsigned(yt) && b < 0 {
					in.tpanic("shift", "negative shift amount")
				}
				if uns {
					if uint64(b) >= 64 {
						return int64(0)
					}
					return norm(int64((uint64(a)&mask(maxw(width(t))))>>uint64(b)), t)
				}
				if uint64(b) >= 64 {
					if a < 0 {
						return int64(-1)
					}
					return int64(0)
				}
				return a >> uint64(b)
			case token.QUO:
				if b == 0 {
					in.tpanic("div-zero", "integer divide by zero")
				}
				if uns {
					return norm(int64(uint64(a)/uint64(b)), t)
				}
				if b == -1 {
					return norm(-a, t)
				}
				return norm(a/b, t)
			case token.REM:
				if b == 0 {
					in.tpanic("div-zero", "integer divide by zero")
				}
				if uns {
					return norm(int64(uint64(a)%uint64(b)), t)
				}
				if b == -1 {
					return int64(0)
				}
				return norm(a%b, t)
			case token.EQL:
				return a == b
			case token.NEQ:
				return a != b
			case token.LSS:
				if uns {
					return uint64(a) < uint64(b)
				}
				return a < b
			case token.LEQ:
				if uns {
					return uint64(a) <= uint64(b)
				}
				return a <= b
			case token.GTR:
				if uns {
					return uint64(a) > uint64(b)
				}
				return a > b
			case token.GEQ:
				if uns {
					return uint64(a) >= uint64(b)
				}
				return a >= b
			}
		}
	case *Obj:
		b, _ := y.(*Obj)
		switch op {
		case token.EQL:
			return a == b
		case token.NEQ:
			return a != b
		}
	case *MapV:
		b, _ := y.(*MapV)
		if op == token.EQL {
			return a == b
		}
		return a != b
	case nil:
		if op == token.EQL {
			return y == nil
		}
		return y != nil
	case *Closure:
		if op == token.EQL {
			return a == nil && y == nil
		}
		return !(a == nil && y == nil)
	case *ssa.Function:
		if op == token.EQL {
			return false
		}
		return true
	case Slice:
		b := y.(Slice)
		eq := a.arr == nil && b.arr == nil
		if op == token.EQL {
			return eq
		}
		return !eq
	case Iface:
		b := y.(Iface)
		eq := in.valEqV(a, b)
		if op == token.EQL {
			return eq
		}
		return in.not(eq)
	case Agg:
		eq := in.valEqV(a, y)
		if op == token.EQL {
			return eq
		}
		return in.not(eq)
	}
	// symbolic scalar
	w := width(t)
	if _, isB := x.(bool); isB {
		w = 0
	}
	if tx, ok := x.(*Term); ok {
		w = tx.w
	} else if ty, ok := y.(*Term); ok && op != token.SHL && op != token.SHR {
		w = ty.w
	}
	tm := in.tm
	if op == token.SHL || op == token.SHR {
		tx := in.toTerm(x, w)
		wy := width(yt)
		ty := in.toTerm(y, wy)
		// shift count: bring to width w with saturation
		var cnt *Term
		switch {
		case wy == w:
			cnt = ty
		case wy < w:
			cnt = tm.Resize(ty, w, false)
		default:
			big := tm.Cmp("bvuge", ty, tm.Const(uint64(w), wy))
			cnt = tm.Ite(big, tm.Const(uint64(w), w), tm.Resize(ty, w, false))
		}
		if op == token.SHL {
			return in.fromTerm(tm.Bin("bvshl", tx, cnt), t)
		}
		if isUnsigned(t) {
			return in.fromTerm(tm.Bin("bvlshr", tx, cnt), t)
		}
		return in.fromTerm(tm.Bin("bvashr", tx, cnt), t)
	}
	tx, ty := in.toTerm(x, w), in.toTerm(y, w)
	uns := isUnsigned(t)
	bt := types.Typ[types.Bool]
	if w == 0 {
		switch op {
		case token.EQL:
			return in.fromTerm(tm.Eq(tx, ty), bt)
		case token.NEQ:
			return in.fromTerm(tm.Not(tm.Eq(tx, ty)), bt)
		case token.AND:
			return in.fromTerm(tm.And(tx, ty), bt)
		case token.OR:
			return in.fromTerm(tm.Or(tx, ty), bt)
		}
		panic("bool op " + op.String())
	}
	pick := func(u, s string) string {
		if uns {
			return u
		}
		return s
	}
	switch op {
	case token.EQL:
		return in.fromTerm(tm.Eq(tx, ty), bt)
	case token.NEQ:
		return in.fromTerm(tm.Not(tm.Eq(tx, ty)), bt)
	case token.LSS:
		return in.fromTerm(tm.Cmp(pick("bvult", "bvslt"), tx, ty), bt)
	case token.LEQ:
		return in.fromTerm(tm.Cmp(pick("bvule", "bvsle"), tx, ty), bt)
	case token.GTR:
		return in.fromTerm(tm.Cmp(pick("bvugt", "bvsgt"), tx, ty), bt)
	case token.GEQ:
		return in.fromTerm(tm.Cmp(pick("bvuge", "bvsge"), tx, ty), bt)
	case token.ADD:
		return in.fromTerm(tm.Bin("bvadd", tx, ty), t)
	case token.SUB:
		return in.fromTerm(tm.Bin("bvsub", tx, ty), t)
	case token.AND:
		return in.fromTerm(tm.Bin("bvand", tx, ty), t)
	case token.OR:
		return in.fromTerm(tm.Bin("bvor", tx, ty), t)
	case token.XOR:
		return in.fromTerm(tm.Bin("bvxor", tx, ty), t)
	case token.AND_NOT:
		return in.fromTerm(tm.Bin("bvand", tx, tm.BvNot(ty)), t)
	case token.MUL:
		return in.fromTerm(tm.Bin("bvmul", tx, ty), t)
	case token.QUO, token.REM:
		if in.cond(in.fromTerm(tm.Eq(ty, tm.Const(0, w)), bt)) {
			in.tpanic("div-zero", "integer divide by zero")
		}
		o := ""
		if op == token.QUO {
			o = pick("bvudiv", "bvsdiv")
		} else {
			o = pick("bvurem", "bvsrem")
		}
		return in.fromTerm(tm.Bin(o, tx, ty), t)
	}
	panic(fmt.Sprintf("binop %s %T %T", op, x, y))
}

// valEqV is structural equality as a Value (bool or *Term).
func (in *Interp) valEqV(a, b Value) Value {
	switch x := a.(type) {
	case SStr:
		y, ok := b.(SStr)
		if !ok {
			return false
		}
		return in.strEq(x, y)
	case int64, *Term, bool:
		switch b.(type) {
		case int64, *Term, bool:
		default:
			return false
		}
		w := 64
		if t, ok := a.(*Term); ok {
			w = t.w
		} else if t, ok := b.(*Term); ok {
			w = t.w
		} else if _, ok := a.(bool); ok {
			w = 0
		}
		return in.fromTerm(in.tm.Eq(in.toTerm(a, w), in.toTerm(b, w)), types.Typ[types.Int64])
	case float64:
		y, ok := b.(float64)
		return ok && x == y
	case Iface:
		y, ok := b.(Iface)
		if !ok {
			return false
		}
		if x.t == nil || y.t == nil {
			return x.t == nil && y.t == nil
		}
		if !types.Identical(x.t, y.t) {
			return false
		}
		return in.valEqV(x.v, y.v)
	case *Obj:
		y, _ := b.(*Obj)
		return x == y
	case *MapV:
		y, _ := b.(*MapV)
		return x == y
	case Agg:
		y, ok := b.(Agg)
		if !ok || len(x) != len(y) {
			return false
		}
		acc := in.tm.t
		for i := range x {
			e := in.valEqV(x[i], y[i])
			switch ev := e.(type) {
			case bool:
				if !ev {
					return false
				}
			case *Term:
				acc = in.tm.And(acc, ev)
			}
		}
		return in.fromTerm(acc, types.Typ[types.Bool])
	case nil:
		return b == nil
	case *Closure:
		y, _ := b.(*Closure)
		return x == y
	case Slice:
		in.tpanic("compare", "comparing uncomparable type")
	}
	panic(fmt.Sprintf("valEq %T", a))
}

func (in *Interp) valEq(a, b Value) bool { return in.cond(in.valEqV(a, b)) }

// ---------- panics ----------

func (in *Interp) tpanic(class, msg string) {
	panic(&targetPanic{class: class, msg: msg, site: in.site()})
}

// site names the innermost avfs function on the current thread's stack (or the
// innermost function at all), in the short form pkg.(*T).M shared with the
// native runner (sym.ShortFunc).
func (in *Interp) site() string {
	th := in.cur
	if th == nil {
		return ""
	}
	first := ""
	for fr := th.top; fr != nil; fr = fr.caller {
		if first == "" {
			first = shortFn(fr.fn)
		}
		if strings.HasPrefix(fnPkgPath(fr.fn), "github.com/avfs/avfs") {
			return shortFn(fr.fn)
		}
	}
	return first
}

func fnPkgPath(f *ssa.Function) string {
	for f.Parent() != nil {
		f = f.Parent()
	}
	if o := f.Origin(); o != nil {
		f = o
	}
	if f.Pkg != nil {
		return f.Pkg.Pkg.Path()
	}
	if r := f.Signature.Recv(); r != nil {
		t := r.Type()
		if p, ok := t.(*types.Pointer); ok {
			t = p.Elem()
		}
		if n, ok := t.(*types.Named); ok && n.Obj().Pkg() != nil {
			return n.Obj().Pkg().Path()
		}
	}
	return ""
}

func shortFn(f *ssa.Function) string {
	for f.Parent() != nil {
		f = f.Parent()
	}
	if o := f.Origin(); o != nil {
		f = o
	}
	name := f.Name()
	if i := strings.IndexByte(name, '$'); i >= 0 {
		name = name[:i] // bound-method / thunk wrappers
	}
	if r := f.Signature.Recv(); r != nil {
		t := r.Type()
		ptr := false
		if p, ok := t.(*types.Pointer); ok {
			t = p.Elem()
			ptr = true
		}
		if n, ok := t.(*types.Named); ok {
			pk := ""
			if n.Obj().Pkg() != nil {
				pk = n.Obj().Pkg().Name() + "."
			}
			if ptr {
				return pk + "(*" + n.Obj().Name() + ")." + name
			}
			return pk + n.Obj().Name() + "." + name
		}
	}
	if f.Pkg != nil {
		return f.Pkg.Pkg.Name() + "." + name
	}
	return name
}

// ---------- calls ----------

func (in *Interp) call(fn *ssa.Function, args []Value, caller *frame) Value {
	if r, ok := in.intrinsic(fn, args, caller); ok {
		return r
	}
	if fn.Blocks == nil {
		if in.lenient {
			in.lenientLog[fn.String()]++
			n := fn.Signature.Results().Len()
			if n == 0 {
				return nil
			}
			if n == 1 {
				return zero(fn.Signature.Results().At(0).Type())
			}
			t := make(Tuple, n)
			for i := range t {
				t[i] = zero(fn.Signature.Results().At(i).Type())
			}
			return t
		}
		in.endPath("UNSUPPORTED", "external function "+fn.String())
	}
	fr := &frame{fn: fn, env: make(map[ssa.Value]Value, 16), caller: caller}
	for i, p := range fn.Params {
		fr.env[p] = args[i]
	}
	return in.run(fr)
}

func (in *Interp) callValue(fv Value, args []Value, caller *frame) Value {
	switch f := fv.(type) {
	case *ssa.Function:
		return in.call(f, args, caller)
	case *Closure:
		if f == nil {
			in.tpanic("nil-deref", "call of nil func")
		}
		if r, ok := in.intrinsic(f.fn, args, caller); ok {
			return r
		}
		fr := &frame{fn: f.fn, env: make(map[ssa.Value]Value, 16), caller: caller}
		for i, p := range f.fn.Params {
			fr.env[p] = args[i]
		}
		for i, fvv := range f.fn.FreeVars {
			fr.env[fvv] = f.bind[i]
		}
		return in.run(fr)
	case nil:
		in.tpanic("nil-deref", "call of nil func")
	}
	panic(fmt.Sprintf("callValue %T", fv))
}

func (in *Interp) lookupMethod(t types.Type, m *types.Func) *ssa.Function {
	key := types.TypeString(t, nil) + "." + m.Id()
	in.world.mu.Lock()
	f, ok := in.world.methods[key]
	in.world.mu.Unlock()
	if ok {
		return f
	}
	f = in.prog.LookupMethod(t, m.Pkg(), m.Name())
	in.world.mu.Lock()
	in.world.methods[key] = f
	in.world.mu.Unlock()
	return f
}

func (in *Interp) prepareCall(fr *frame, c *ssa.CallCommon) (Value, []Value, *ssa.Builtin) {
	args := make([]Value, 0, len(c.Args)+1)
	if c.IsInvoke() {
		recv := in.get(fr, c.Value).(Iface)
		if recv.t == nil {
			in.tpanic("nil-deref", "method call on nil interface ("+c.Method.Name()+")")
		}
		m := in.lookupMethod(recv.t, c.Method)
		if m == nil {
			panic(fmt.Sprintf("no method %s on %v", c.Method.Name(), recv.t))
		}
		args = append(args, recv.v)
		for _, a := range c.Args {
			args = append(args, in.get(fr, a))
		}
		return m, args, nil
	}
	for _, a := range c.Args {
		args = append(args, in.get(fr, a))
	}
	if b, ok := c.Value.(*ssa.Builtin); ok {
		return nil, args, b
	}
	return in.get(fr, c.Value), args, nil
}

func (in *Interp) doCall(fr *frame, c *ssa.CallCommon) Value {
	fv, args, b := in.prepareCall(fr, c)
	if b != nil {
		return in.builtin(fr, b, args, c)
	}
	return in.callValue(fv, args, fr)
}

func (in *Interp) runDefers(fr *frame) {
	for len(fr.defers) > 0 {
		d := fr.defers[len(fr.defers)-1]
		fr.defers = fr.defers[:len(fr.defers)-1]
		d()
	}
}

func zeroResults(fn *ssa.Function) Value {
	n := fn.Signature.Results().Len()
	switch n {
	case 0:
		return nil
	case 1:
		return zero(fn.Signature.Results().At(0).Type())
	}
	t := make(Tuple, n)
	for i := range t {
		t[i] = zero(fn.Signature.Results().At(i).Type())
	}
	return t
}

func (in *Interp) run(fr *frame) (result Value) {
	th := in.cur
	saved := th.top
	th.top = fr
	in.enteredFns[fr.fn]++
	defer func() {
		if r := recover(); r != nil {
			tp, ok := r.(*targetPanic)
			if !ok {
				panic(r)
			}
			// th may differ from in.cur only if a thread switch leaked; keep th
			th.top = fr
			fr.panicking = tp
			in.runDefers(fr) // a panic raised here replaces tp and propagates
			if fr.panicking == nil {
				if fr.fn.Recover != nil {
					result = in.runBlocks(fr, fr.fn.Recover)
				} else {
					result = zeroResults(fr.fn)
				}
				th.top = saved
				return
			}
			th.top = saved
			panic(tp)
		}
		th.top = saved
	}()
	return in.runBlocks(fr, fr.fn.Blocks[0])
}

func (in *Interp) runBlocks(fr *frame, b *ssa.BasicBlock) Value {
	fn := fr.fn
	var prev *ssa.BasicBlock
	for {
	block:
		for _, instr := range b.Instrs {
			in.steps++
			if in.steps > in.cfg.Budget {
				in.endPath("BUDGET", "instruction budget exhausted in "+fn.String())
			}
			switch x := instr.(type) {
			case *ssa.Phi:
				if x == b.Instrs[0] {
					idx := -1
					for i, p := range b.Preds {
						if p == prev {
							idx = i
							break
						}
					}
					var phis []*ssa.Phi
					var vals []Value
					for _, ii := range b.Instrs {
						ph, ok := ii.(*ssa.Phi)
						if !ok {
							break
						}
						phis = append(phis, ph)
						vals = append(vals, in.get(fr, ph.Edges[idx]))
					}
					for i, ph := range phis {
						fr.env[ph] = vals[i]
					}
				}
			case *ssa.Alloc:
				o := newObj(x.Type().(*types.Pointer).Elem())
				if x.Heap {
					in.raceNew(o)
				}
				fr.env[x] = o
			case *ssa.UnOp:
				fr.env[x] = in.unop(fr, x)
			case *ssa.BinOp:
				fr.env[x] = in.binop(x.Op, in.get(fr, x.X), in.get(fr, x.Y), x.X.Type(), x.Y.Type())
			case *ssa.Store:
				av := in.get(fr, x.Addr)
				if sp, ok := av.(*SymPtr); ok {
					av = sp.elems[in.concretize(sp.idx, sp.it)]
				}
				p, _ := av.(*Obj)
				if p == nil {
					in.tpanic("nil-deref", "nil pointer dereference (store)")
				}
				in.raceWrite(p)
				p.store(in.get(fr, x.Val))
			case *ssa.FieldAddr:
				av := in.get(fr, x.X)
				if sp, ok := av.(*SymPtr); ok {
					av = sp.elems[in.concretize(sp.idx, sp.it)]
				}
				p, _ := av.(*Obj)
				if p == nil {
					in.tpanic("nil-deref", "nil pointer dereference (field)")
				}
				fr.env[x] = p.kids[x.Field]
			case *ssa.Field:
				fr.env[x] = in.get(fr, x.X).(Agg)[x.Field]
			case *ssa.IndexAddr:
				fr.env[x] = in.indexAddr(fr, x)
			case *ssa.Index:
				fr.env[x] = in.index(fr, x)
			case *ssa.Slice:
				fr.env[x] = in.slice(fr, x)
			case *ssa.MakeSlice:
				fr.env[x] = in.makeSlice(fr, x)
			case *ssa.MakeMap:
				m := &MapV{}
				in.raceNewMap(m)
				fr.env[x] = m
			case *ssa.MapUpdate:
				m, _ := in.get(fr, x.Map).(*MapV)
				if m == nil {
					in.tpanic("nil-map", "assignment to entry in nil map")
				}
				in.raceWriteMap(m)
				k := in.get(fr, x.Key)
				if j := m.find(in, k); j >= 0 {
					m.vals[j] = in.get(fr, x.Value)
				} else {
					m.keys = append(m.keys, k)
					m.vals = append(m.vals, in.get(fr, x.Value))
				}
			case *ssa.MakeInterface:
				fr.env[x] = Iface{t: x.X.Type(), v: in.get(fr, x.X)}
			case *ssa.MakeClosure:
				bind := make([]Value, len(x.Bindings))
				for i, bv := range x.Bindings {
					bind[i] = in.get(fr, bv)
				}
				fr.env[x] = &Closure{fn: x.Fn.(*ssa.Function), bind: bind}
			case *ssa.ChangeType:
				fr.env[x] = in.get(fr, x.X)
			case *ssa.Convert:
				fr.env[x] = in.convert(in.get(fr, x.X), x.X.Type(), x.Type())
			case *ssa.Extract:
				fr.env[x] = in.get(fr, x.Tuple).(Tuple)[x.Index]
			case *ssa.Call:
				fr.env[x] = in.doCall(fr, &x.Call)
			case *ssa.Go:
				fv, args, bi := in.prepareCall(fr, &x.Call)
				if bi != nil {
					in.endPath("UNSUPPORTED", "go builtin")
				}
				in.spawn(func() { in.callValue(fv, args, nil) })
			case *ssa.Defer:
				fv, args, bi := in.prepareCall(fr, &x.Call)
				cc := &x.Call
				if bi != nil {
					fr.defers = append(fr.defers, func() { in.builtin(fr, bi, args, cc) })
				} else {
					fr.defers = append(fr.defers, func() {
						in.callDeferred(fv, args, fr)
					})
				}
			case *ssa.RunDefers:
				in.runDefers(fr)
			case *ssa.If:
				prev = b
				if in.cond(in.get(fr, x.Cond)) {
					b = b.Succs[0]
				} else {
					b = b.Succs[1]
				}
				break block
			case *ssa.Jump:
				prev = b
				b = b.Succs[0]
				break block
			case *ssa.Return:
				switch len(x.Results) {
				case 0:
					return nil
				case 1:
					return in.get(fr, x.Results[0])
				}
				t := make(Tuple, len(x.Results))
				for i, r := range x.Results {
					t[i] = in.get(fr, r)
				}
				return t
			case *ssa.Panic:
				v := in.get(fr, x.X)
				msg := "explicit panic"
				if iv, ok := v.(Iface); ok {
					if s, ok := iv.v.(SStr); ok {
						if cs, ok := s.concrete(); ok {
							msg = "explicit panic: " + cs
						}
					}
				}
				panic(&targetPanic{class: "explicit", msg: msg, site: in.site(), val: v})
			case *ssa.DebugRef:
			case *ssa.ChangeInterface:
				fr.env[x] = in.get(fr, x.X)
			case *ssa.TypeAssert:
				fr.env[x] = in.typeAssert(x, in.get(fr, x.X).(Iface))
			case *ssa.Lookup:
				fr.env[x] = in.mapLookup(fr, x)
			case *ssa.Range:
				switch c := in.get(fr, x.X).(type) {
				case *MapV:
					it := &mapIter{m: c}
					if c != nil {
						in.raceReadMap(c)
						it.keys = append(it.keys, c.keys...)
						if in.cfg.MapOrder && len(it.keys) >= 2 && in.choose(2) == 1 {
							for i, j := 0, len(it.keys)-1; i < j; i, j = i+1, j-1 {
								it.keys[i], it.keys[j] = it.keys[j], it.keys[i]
							}
						}
					}
					fr.env[x] = it
				case SStr:
					fr.env[x] = &strIter{s: c}
				default:
					in.endPath("UNSUPPORTED", fmt.Sprintf("range over %T", c))
				}
			case *ssa.Next:
				fr.env[x] = in.next(fr, x)
			case *ssa.SliceToArrayPointer:
				s := in.get(fr, x.X).(Slice)
				n := int(x.Type().(*types.Pointer).Elem().Underlying().(*types.Array).Len())
				if s.len < n {
					in.tpanic("slice-bounds", "cannot convert slice to array pointer")
				}
				fr.env[x] = &Obj{agg: true, kids: s.arr.kids[s.off : s.off+n]}
			default:
				in.endPath("UNSUPPORTED", fmt.Sprintf("instruction %T in %s", instr, fn))
			}
		}
	}
}

func (in *Interp) callDeferred(fv Value, args []Value, by *frame) {
	switch f := fv.(type) {
	case *ssa.Function:
		if r, ok := in.intrinsic(f, args, by); ok {
			_ = r
			return
		}
		if f.Blocks == nil {
			in.call(f, args, by)
			return
		}
		fr := &frame{fn: f, env: make(map[ssa.Value]Value, 16), caller: by, deferredBy: by}
		for i, p := range f.Params {
			fr.env[p] = args[i]
		}
		in.run(fr)
	case *Closure:
		if _, ok := in.intrinsic(f.fn, args, by); ok {
			return
		}
		fr := &frame{fn: f.fn, env: make(map[ssa.Value]Value, 16), caller: by, deferredBy: by}
		for i, p := range f.fn.Params {
			fr.env[p] = args[i]
		}
		for i, fvv := range f.fn.FreeVars {
			fr.env[fvv] = f.bind[i]
		}
		in.run(fr)
	default:
		in.callValue(fv, args, by)
	}
}

func (in *Interp) unop(fr *frame, x *ssa.UnOp) Value {
	v := in.get(fr, x.X)
	switch x.Op {
	case token.MUL:
		if sp, ok := v.(*SymPtr); ok {
			return in.loadSymPtr(sp)
		}
		p, _ := v.(*Obj)
		if p == nil {
			in.tpanic("nil-deref", "nil pointer dereference")
		}
		in.raceRead(p)
		return p.load()
	case token.NOT:
		return in.not(v)
	case token.SUB:
		switch c := v.(type) {
		case int64:
			return norm(-c, x.Type())
		case float64:
			return -c
		case *Term:
			return in.fromTerm(in.tm.BvNeg(c), x.Type())
		}
	case token.XOR:
		switch c := v.(type) {
		case int64:
			return norm(^c, x.Type())
		case *Term:
			return in.fromTerm(in.tm.BvNot(c), x.Type())
		}
	}
	panic(fmt.Sprintf("unop %s %T", x.Op, v))
}

// SymPtr is the address of elems[idx] for a symbolic, in-range idx (produced by
// IndexAddr; a load becomes an ITE chain, a store concretizes the index).
type SymPtr struct {
	elems []*Obj
	idx   *Term
	it    types.Type
	et    types.Type
}

func (in *Interp) symPtr(iv *Term, it types.Type, elems []*Obj, et types.Type) Value {
	idx64 := in.tm.Resize(iv, 64, !isUnsigned(it))
	oob := in.tm.Cmp("bvuge", idx64, in.tm.Const(uint64(len(elems)), 64))
	if in.branch(oob) {
		in.tpanic("index", fmt.Sprintf("index out of range [symbolic] with length %d", len(elems)))
	}
	scalar := len(elems) > 0 && len(elems) <= 300
	for _, e := range elems {
		if e.agg {
			scalar = false
			break
		}
		switch e.leaf.(type) {
		case int64, *Term, bool:
		default:
			scalar = false
		}
	}
	if !scalar {
		return elems[in.concretize(iv, it)]
	}
	return &SymPtr{elems: elems, idx: iv, it: it, et: et}
}

func (in *Interp) loadSymPtr(p *SymPtr) Value {
	w := width(p.et)
	acc := in.toTerm(p.elems[len(p.elems)-1].leaf, w)
	for i := len(p.elems) - 2; i >= 0; i-- {
		in.raceRead(p.elems[i])
		v := in.toTerm(p.elems[i].leaf, w)
		if v == acc {
			continue
		}
		acc = in.tm.Ite(in.tm.Cmp("bvule", p.idx, in.tm.Const(uint64(i), p.idx.w)), v, acc)
	}
	return in.fromTerm(acc, p.et)
}

// boundsIndex returns a concrete index in [0,limit), forking a panic path when
// a symbolic index can be out of range.
func (in *Interp) boundsIndex(iv Value, it types.Type, limit int) int {
	switch c := iv.(type) {
	case int64:
		if c < 0 || c >= int64(limit) {
			in.tpanic("index", fmt.Sprintf("index out of range [%d] with length %d", c, limit))
		}
		return int(c)
	case *Term:
		c64 := in.tm.Resize(c, 64, !isUnsigned(it))
		oob := in.tm.Cmp("bvuge", c64, in.tm.Const(uint64(limit), 64))
		if in.branch(oob) {
			in.tpanic("index", fmt.Sprintf("index out of range [symbolic] with length %d", limit))
		}
		return int(in.concretize(c, it))
	}
	panic(fmt.Sprintf("index %T", iv))
}

func (in *Interp) indexAddr(fr *frame, x *ssa.IndexAddr) Value {
	iv := in.get(fr, x.Index)
	switch c := in.get(fr, x.X).(type) {
	case Slice:
		if t, ok := iv.(*Term); ok {
			return in.symPtr(t, x.Index.Type(), c.arr.kids[c.off:c.off+c.len], x.Type().(*types.Pointer).Elem())
		}
		idx := in.boundsIndex(iv, x.Index.Type(), c.len)
		return c.arr.kids[c.off+idx]
	case *Obj:
		if c == nil {
			in.tpanic("nil-deref", "nil pointer dereference (array index)")
		}
		if t, ok := iv.(*Term); ok {
			return in.symPtr(t, x.Index.Type(), c.kids, x.Type().(*types.Pointer).Elem())
		}
		idx := in.boundsIndex(iv, x.Index.Type(), len(c.kids))
		return c.kids[idx]
	}
	panic(fmt.Sprintf("indexaddr %T", in.get(fr, x.X)))
}

func (in *Interp) index(fr *frame, x *ssa.Index) Value {
	iv := in.get(fr, x.Index)
	switch c := in.get(fr, x.X).(type) {
	case Agg:
		if t, ok := iv.(*Term); ok {
			return in.iteIndex(t, x.Index.Type(), []Value(c), x.Type())
		}
		idx := in.boundsIndex(iv, x.Index.Type(), len(c))
		return c[idx]
	case SStr:
		if t, ok := iv.(*Term); ok {
			return in.iteIndex(t, x.Index.Type(), []Value(c), types.Typ[types.Uint8])
		}
		idx := in.boundsIndex(iv, x.Index.Type(), len(c))
		return c[idx]
	}
	panic(fmt.Sprintf("index %T", in.get(fr, x.X)))
}

// iteIndex reads elems[idx] for a symbolic idx as an ITE chain (scalar elements only).
func (in *Interp) iteIndex(idx *Term, it types.Type, elems []Value, et types.Type) Value {
	idx64 := in.tm.Resize(idx, 64, !isUnsigned(it))
	oob := in.tm.Cmp("bvuge", idx64, in.tm.Const(uint64(len(elems)), 64))
	if in.branch(oob) {
		in.tpanic("index", fmt.Sprintf("index out of range [symbolic] with length %d", len(elems)))
	}
	scalar := true
	for _, e := range elems {
		switch e.(type) {
		case int64, *Term, bool:
		default:
			scalar = false
		}
	}
	if !scalar || len(elems) > 300 {
		return elems[in.concretize(idx, it)]
	}
	w := width(et)
	// merge runs of equal values: ite(idx <= hi_k, v_k, ...)
	acc := in.toTerm(elems[len(elems)-1], w)
	for i := len(elems) - 2; i >= 0; i-- {
		v := in.toTerm(elems[i], w)
		if v == acc {
			continue
		}
		acc = in.tm.Ite(in.tm.Cmp("bvule", idx, in.tm.Const(uint64(i), idx.w)), v, acc)
	}
	return in.fromTerm(acc, et)
}

// sliceBound resolves one slice bound to a concrete int in [0,limit] or raises the panic path.
func (in *Interp) sliceBound(v Value, t types.Type, limit int) int {
	switch c := v.(type) {
	case int64:
		if c < 0 || c > int64(limit) {
			in.tpanic("slice-bounds", fmt.Sprintf("slice bounds out of range [%d] with capacity %d", c, limit))
		}
		return int(c)
	case *Term:
		c64 := in.tm.Resize(c, 64, !isUnsigned(t))
		oob := in.tm.Cmp("bvugt", c64, in.tm.Const(uint64(limit), 64))
		if in.branch(oob) {
			in.tpanic("slice-bounds", fmt.Sprintf("slice bounds out of range [symbolic] with capacity %d", limit))
		}
		return int(in.concretize(c, t))
	}
	panic(fmt.Sprintf("slice bound %T", v))
}

func (in *Interp) slice(fr *frame, x *ssa.Slice) Value {
	base := in.get(fr, x.X)
	bound := func(v ssa.Value, def, limit int) int {
		if v == nil {
			return def
		}
		return in.sliceBound(in.get(fr, v), v.Type(), limit)
	}
	switch c := base.(type) {
	case SStr:
		hi := bound(x.High, len(c), len(c))
		lo := bound(x.Low, 0, len(c))
		if lo > hi {
			in.tpanic("slice-bounds", fmt.Sprintf("slice bounds out of range [%d:%d]", lo, hi))
		}
		return c[lo:hi:hi]
	case Slice:
		mx := bound(x.Max, c.cap, c.cap)
		hi := bound(x.High, c.len, mx)
		if x.High == nil && c.len > mx {
			in.tpanic("slice-bounds", "slice bounds out of range")
		}
		lo := bound(x.Low, 0, hi)
		if c.arr == nil {
			return Slice{}
		}
		return Slice{arr: c.arr, off: c.off + lo, len: hi - lo, cap: mx - lo}
	case *Obj:
		if c == nil {
			in.tpanic("nil-deref", "slice of nil array pointer")
		}
		n := len(c.kids)
		mx := bound(x.Max, n, n)
		hi := bound(x.High, n, mx)
		lo := bound(x.Low, 0, hi)
		return Slice{arr: c, off: lo, len: hi - lo, cap: mx - lo}
	}
	panic(fmt.Sprintf("slice of %T", base))
}

func (in *Interp) sizeArg(v Value, t types.Type, what string) int {
	switch c := v.(type) {
	case int64:
		if c < 0 {
			in.tpanic("alloc-size", "makeslice: "+what+" out of range")
		}
		if c > int64(1<<20) {
			in.cuts = append(in.cuts, "alloc")
			in.endPath("CUT", "concrete allocation larger than 1 MiB elements")
		}
		return int(c)
	case *Term:
		// the real run-time limit for []byte on amd64 is 2^48 elements; anything
		// negative (as signed) or above panics
		bad := in.tm.Cmp("bvugt", c, in.tm.Const(uint64(1)<<48, c.w))
		if c.w < 64 {
			bad = in.tm.Cmp("bvslt", c, in.tm.Const(0, c.w))
			if isUnsigned(t) {
				bad = in.tm.f
			}
		}
		if in.branch(bad) {
			in.tpanic("alloc-size", "makeslice: "+what+" out of range")
		}
		big := in.tm.Cmp("bvugt", c, in.tm.Const(uint64(in.cfg.MaxAlloc), c.w))
		if in.branch(big) {
			in.cuts = append(in.cuts, "alloc")
			in.endPath("CUT", "symbolic allocation larger than MaxAlloc")
		}
		return int(in.concretize(c, t))
	}
	panic(fmt.Sprintf("size %T", v))
}

func (in *Interp) makeSlice(fr *frame, x *ssa.MakeSlice) Value {
	n := in.sizeArg(in.get(fr, x.Len), x.Len.Type(), "len")
	c := in.sizeArg(in.get(fr, x.Cap), x.Cap.Type(), "cap")
	if c < n {
		in.tpanic("alloc-size", "makeslice: cap out of range")
	}
	et := x.Type().Underlying().(*types.Slice).Elem()
	arr := newArray(et, c)
	in.raceNew(arr)
	return Slice{arr: arr, len: n, cap: c}
}

func (in *Interp) convert(v Value, from, to types.Type) Value {
	fu, tu := from.Underlying(), to.Underlying()
	if tb, ok := tu.(*types.Basic); ok {
		if tb.Info()&types.IsString != 0 {
			switch c := v.(type) {
			case Slice:
				if et := fu.(*types.Slice).Elem().Underlying().(*types.Basic); et.Kind() == types.Int32 {
					var r SStr
					for i := 0; i < c.len; i++ {
						rv, ok := c.arr.kids[c.off+i].leaf.(int64)
						if !ok {
							in.endPath("UNSUPPORTED", "[]rune->string with symbolic rune")
						}
						r = append(r, sstr(string(rune(rv)))...)
					}
					return r
				}
				r := make(SStr, c.len)
				for i := 0; i < c.len; i++ {
					in.raceRead(c.arr.kids[c.off+i])
					r[i] = c.arr.kids[c.off+i].leaf
				}
				return r
			case int64:
				if isInteger(fu) {
					return sstr(string(rune(c)))
				}
			case *Term:
				// string(rune) with symbolic rune: ASCII fast path, otherwise enumerate
				if in.branch(in.tm.Cmp("bvult", c, in.tm.Const(0x80, c.w))) {
					return SStr{in.fromTerm(in.tm.Resize(c, 8, false), types.Typ[types.Uint8])}
				}
				return sstr(string(rune(in.concretize(c, from))))
			case SStr:
				return c
			}
			panic(fmt.Sprintf("convert to string from %T", v))
		}
		if tb.Info()&types.IsInteger != 0 {
			switch c := v.(type) {
			case int64:
				return norm(c, to)
			case float64:
				return norm(int64(c), to)
			case *Term:
				return in.fromTerm(in.tm.Resize(c, width(to), !isUnsigned(from)), to)
			case *Obj: // unsafe.Pointer -> uintptr
				in.endPath("UNSUPPORTED", "pointer to integer conversion")
			}
		}
		if tb.Info()&types.IsFloat != 0 {
			switch c := v.(type) {
			case int64:
				if isUnsigned(from) {
					return float64(uint64(c))
				}
				return float64(c)
			case float64:
				if tb.Kind() == types.Float32 {
					return float64(float32(c))
				}
				return c
			case *Term:
				in.endPath("UNSUPPORTED", "symbolic integer to float")
			}
		}
		if tb.Kind() == types.UnsafePointer {
			return v
		}
	}
	if ts, ok := tu.(*types.Slice); ok {
		if s, ok := v.(SStr); ok {
			if eb, ok := ts.Elem().Underlying().(*types.Basic); ok && eb.Kind() == types.Int32 {
				cs, ok := s.concrete()
				if !ok {
					in.endPath("UNSUPPORTED", "string->[]rune with symbolic bytes")
				}
				rs := []rune(cs)
				arr := &Obj{agg: true, kids: make([]*Obj, len(rs))}
				for i := range rs {
					arr.kids[i] = &Obj{leaf: int64(rs[i])}
				}
				return Slice{arr: arr, len: len(rs), cap: len(rs)}
			}
			arr := &Obj{agg: true, kids: make([]*Obj, len(s))}
			for i := range s {
				arr.kids[i] = &Obj{leaf: s[i]}
			}
			in.raceNew(arr)
			return Slice{arr: arr, len: len(s), cap: len(s)}
		}
		return v
	}
	if _, ok := tu.(*types.Pointer); ok {
		return v
	}
	panic(fmt.Sprintf("convert %v -> %v (%T)", from, to, v))
}

func (in *Interp) typeAssert(x *ssa.TypeAssert, v Iface) Value {
	ok := false
	var res Value
	if it, isI := x.AssertedType.Underlying().(*types.Interface); isI {
		ok = v.t != nil && types.Implements(v.t, it)
		if ok {
			res = v
		} else {
			res = Iface{}
		}
	} else {
		ok = v.t != nil && types.Identical(v.t, x.AssertedType)
		if ok {
			res = v.v
		} else {
			res = zero(x.AssertedType)
		}
	}
	if x.CommaOk {
		return Tuple{res, ok}
	}
	if !ok {
		in.tpanic("type-assert", fmt.Sprintf("interface conversion: %v is not %v", v.t, x.AssertedType))
	}
	return res
}

func (m *MapV) find(in *Interp, k Value) int {
	if m == nil {
		return -1
	}
	for i, kk := range m.keys {
		if in.valEq(kk, k) {
			return i
		}
	}
	return -1
}

func (in *Interp) mapLookup(fr *frame, x *ssa.Lookup) Value {
	m, _ := in.get(fr, x.X).(*MapV)
	k := in.get(fr, x.Index)
	et := x.X.Type().Underlying().(*types.Map).Elem()
	if m != nil {
		in.raceReadMap(m)
	}
	j := m.find(in, k)
	var v Value
	if j >= 0 {
		v = m.vals[j]
	} else {
		v = zero(et)
	}
	if x.CommaOk {
		return Tuple{v, j >= 0}
	}
	return v
}

func (in *Interp) next(fr *frame, x *ssa.Next) Value {
	switch it := in.get(fr, x.Iter).(type) {
	case *mapIter:
		res := Tuple{false, nil, nil}
		for it.i < len(it.keys) {
			k := it.keys[it.i]
			it.i++
			// key must still be present (deleted entries are not produced)
			found := -1
			for j, kk := range it.m.keys {
				if in.valEq(kk, k) {
					found = j
					break
				}
			}
			if found >= 0 {
				res = Tuple{true, k, it.m.vals[found]}
				break
			}
		}
		return res
	case *strIter:
		if it.i >= len(it.s) {
			return Tuple{false, int64(0), int64(0)}
		}
		pos := it.i
		b := it.s[pos]
		if c, ok := b.(int64); ok && c < 0x80 {
			it.i++
			return Tuple{true, int64(pos), c}
		}
		if t, ok := b.(*Term); ok {
			if in.branch(in.tm.Cmp("bvult", t, in.tm.Const(0x80, 8))) {
				it.i++
				return Tuple{true, int64(pos), in.fromTerm(in.tm.Resize(t, 32, false), types.Typ[types.Int32])}
			}
		}
		// multi-byte: decode with the real unicode/utf8 code
		dec := in.world.fn("unicode/utf8", "DecodeRuneInString")
		if dec == nil {
			in.endPath("UNSUPPORTED", "range over non-ASCII string without unicode/utf8")
		}
		r := in.call(dec, []Value{it.s[pos:]}, fr).(Tuple)
		size := in.concretize(r[1], types.Typ[types.Int])
		it.i += int(size)
		return Tuple{true, int64(pos), r[0]}
	}
	panic("next")
}

func (in *Interp) builtin(fr *frame, b *ssa.Builtin, args []Value, c *ssa.CallCommon) Value {
	switch b.Name() {
	case "len":
		switch x := args[0].(type) {
		case SStr:
			return int64(len(x))
		case Slice:
			return int64(x.len)
		case *MapV:
			if x == nil {
				return int64(0)
			}
			in.raceReadMap(x)
			return int64(len(x.keys))
		case Agg:
			return int64(len(x))
		case *Obj:
			return int64(len(x.kids))
		case nil:
			return int64(0) // nil chan
		}
	case "cap":
		switch x := args[0].(type) {
		case Slice:
			return int64(x.cap)
		case Agg:
			return int64(len(x))
		case *Obj:
			return int64(len(x.kids))
		}
	case "delete":
		m, _ := args[0].(*MapV)
		if m == nil {
			return nil
		}
		in.raceWriteMap(m)
		if j := m.find(in, args[1]); j >= 0 {
			m.keys = append(m.keys[:j:j], m.keys[j+1:]...)
			m.vals = append(m.vals[:j:j], m.vals[j+1:]...)
		}
		return nil
	case "copy":
		dst := args[0].(Slice)
		switch src := args[1].(type) {
		case SStr:
			n := min(dst.len, len(src))
			for i := 0; i < n; i++ {
				in.raceWrite(dst.arr.kids[dst.off+i])
				dst.arr.kids[dst.off+i].leaf = src[i]
			}
			return int64(n)
		case Slice:
			n := min(dst.len, src.len)
			tmp := make([]Value, n)
			for i := 0; i < n; i++ {
				in.raceRead(src.arr.kids[src.off+i])
				tmp[i] = src.arr.kids[src.off+i].load()
			}
			for i := 0; i < n; i++ {
				in.raceWrite(dst.arr.kids[dst.off+i])
				dst.arr.kids[dst.off+i].store(tmp[i])
			}
			return int64(n)
		}
	case "append":
		s := args[0].(Slice)
		var add []Value
		switch src := args[1].(type) {
		case Slice:
			for i := 0; i < src.len; i++ {
				in.raceRead(src.arr.kids[src.off+i])
				add = append(add, src.arr.kids[src.off+i].load())
			}
		case SStr:
			add = append(add, src...)
		}
		if len(add) == 0 {
			return s
		}
		if s.len+len(add) <= s.cap {
			for i, v := range add {
				in.raceWrite(s.arr.kids[s.off+s.len+i])
				s.arr.kids[s.off+s.len+i].store(v)
			}
			s.len += len(add)
			return s
		}
		ncap := s.len + len(add)
		if ncap < 2*s.cap {
			ncap = 2 * s.cap
		}
		et := c.Args[0].Type().Underlying().(*types.Slice).Elem()
		arr := newArray(et, ncap)
		in.raceNew(arr)
		for i := 0; i < s.len; i++ {
			arr.kids[i].store(s.arr.kids[s.off+i].load())
		}
		for i, v := range add {
			arr.kids[s.len+i].store(v)
		}
		return Slice{arr: arr, len: s.len + len(add), cap: ncap}
	case "recover":
		if fr != nil && fr.deferredBy != nil && fr.deferredBy.panicking != nil {
			tp := fr.deferredBy.panicking
			fr.deferredBy.panicking = nil
			if tp.val != nil {
				return tp.val
			}
			return Iface{t: types.Typ[types.String], v: sstr(tp.msg)}
		}
		return Iface{}
	case "print", "println":
		return nil
	case "min", "max":
		acc := args[0]
		for _, a := range args[1:] {
			var pick Value
			if b.Name() == "min" {
				pick = in.binop(token.LSS, a, acc, c.Args[0].Type(), c.Args[0].Type())
			} else {
				pick = in.binop(token.GTR, a, acc, c.Args[0].Type(), c.Args[0].Type())
			}
			switch p := pick.(type) {
			case bool:
				if p {
					acc = a
				}
			case *Term:
				if _, isStr := a.(SStr); isStr {
					if in.branch(p) {
						acc = a
					}
				} else {
					w := width(c.Args[0].Type())
					acc = in.fromTerm(in.tm.Ite(p, in.toTerm(a, w), in.toTerm(acc, w)), c.Args[0].Type())
				}
			}
		}
		return acc
	case "clear":
		switch x := args[0].(type) {
		case *MapV:
			if x != nil {
				in.raceWriteMap(x)
				x.keys, x.vals = nil, nil
			}
		case Slice:
			et := c.Args[0].Type().Underlying().(*types.Slice).Elem()
			for i := 0; i < x.len; i++ {
				x.arr.kids[x.off+i].store(zero(et))
			}
		}
		return nil
	}
	panic("builtin " + b.Name() + fmt.Sprintf(" %T", args[0]))
}
