package engine

import (
	"encoding/json"
	"os"
	"path/filepath"
)

// OverlayFromDir maps every file below dir to the same relative path below root.
func OverlayFromDir(dir, root string) (map[string][]byte, map[string]string, error) {
	ov := map[string][]byte{}
	repl := map[string]string{}
	err := filepath.Walk(dir, func(p string, info os.FileInfo, err error) error {
		if err != nil || info.IsDir() {
			return err
		}
		rel, _ := filepath.Rel(dir, p)
		b, err := os.ReadFile(p)
		if err != nil {
			return err
		}
		ov[filepath.Join(root, rel)] = b
		repl[filepath.Join(root, rel)] = p
		return nil
	})
	return ov, repl, err
}

// WriteOverlayJSON writes the go build -overlay file.
func WriteOverlayJSON(path string, repl map[string]string) error {
	b, _ := json.Marshal(map[string]any{"Replace": repl})
	return os.WriteFile(path, b, 0o644)
}
