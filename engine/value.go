package engine

import (
	"fmt"
	"go/types"

	"golang.org/x/tools/go/ssa"
)

// Value is one of:
//
//	bool, int64 (every concrete integer, sign/zero-extended per its Go type),
//	float64, *Term (symbolic Bool or bit-vector), SStr (string), *Obj (pointer),
//	Slice, Agg (struct or array value), Tuple, Iface, *Closure, *ssa.Function,
//	*ssa.Builtin, *MapV, *mapIter, *strIter, nil (nil func).
type Value interface{}

// SStr is a string of concrete length; each byte is int64 (0..255) or *Term (w=8).
type SStr []Value

// Obj is a heap cell (leaf) or an aggregate of cells (struct fields / array elements).
type Obj struct {
	kids []*Obj
	leaf Value
	agg  bool
	meta *objMeta // race-monitor metadata (nil unless the monitor is on)
}

type Slice struct {
	arr           *Obj
	off, len, cap int
}

type Agg []Value
type Tuple []Value

type Iface struct {
	t types.Type
	v Value
}

type Closure struct {
	fn   *ssa.Function
	bind []Value
}

type MapV struct {
	keys []Value
	vals []Value
	meta *objMeta
}

type mapIter struct {
	m    *MapV
	keys []Value
	i    int
}

type strIter struct {
	s SStr
	i int
}

func zero(t types.Type) Value {
	switch u := t.Underlying().(type) {
	case *types.Basic:
		switch {
		case u.Info()&types.IsBoolean != 0:
			return false
		case u.Info()&types.IsString != 0:
			return SStr(nil)
		case u.Kind() == types.UnsafePointer:
			return (*Obj)(nil)
		case u.Info()&types.IsFloat != 0:
			return float64(0)
		default:
			return int64(0)
		}
	case *types.Pointer:
		return (*Obj)(nil)
	case *types.Slice:
		return Slice{}
	case *types.Struct:
		v := make(Agg, u.NumFields())
		for i := range v {
			v[i] = zero(u.Field(i).Type())
		}
		return v
	case *types.Array:
		v := make(Agg, u.Len())
		for i := range v {
			v[i] = zero(u.Elem())
		}
		return v
	case *types.Interface:
		return Iface{}
	case *types.Map:
		return (*MapV)(nil)
	case *types.Signature:
		return nil
	case *types.Chan:
		return nil
	case *types.Tuple:
		return Tuple(nil)
	}
	panic(fmt.Sprintf("zero: %T %v", t.Underlying(), t))
}

func newObj(t types.Type) *Obj {
	switch u := t.Underlying().(type) {
	case *types.Struct:
		o := &Obj{agg: true, kids: make([]*Obj, u.NumFields())}
		for i := range o.kids {
			o.kids[i] = newObj(u.Field(i).Type())
		}
		return o
	case *types.Array:
		o := &Obj{agg: true, kids: make([]*Obj, u.Len())}
		for i := range o.kids {
			o.kids[i] = newObj(u.Elem())
		}
		return o
	}
	return &Obj{leaf: zero(t)}
}

func newArray(et types.Type, n int) *Obj {
	arr := &Obj{agg: true, kids: make([]*Obj, n)}
	for i := range arr.kids {
		arr.kids[i] = newObj(et)
	}
	return arr
}

func (o *Obj) load() Value {
	if !o.agg {
		return o.leaf
	}
	v := make(Agg, len(o.kids))
	for i, k := range o.kids {
		v[i] = k.load()
	}
	return v
}

func (o *Obj) store(v Value) {
	if !o.agg {
		o.leaf = v
		return
	}
	a, ok := v.(Agg)
	if !ok {
		panic(fmt.Sprintf("store aggregate from %T", v))
	}
	if len(a) != len(o.kids) {
		panic(fmt.Sprintf("store aggregate size %d into %d", len(a), len(o.kids)))
	}
	for i, k := range o.kids {
		k.store(a[i])
	}
}

// cloner deep-copies a value graph (used to snapshot/restore globals per path).
type cloner struct {
	objs map[*Obj]*Obj
	maps map[*MapV]*MapV
}

func newCloner() *cloner { return &cloner{objs: map[*Obj]*Obj{}, maps: map[*MapV]*MapV{}} }

func (c *cloner) obj(o *Obj) *Obj {
	if o == nil {
		return nil
	}
	if n, ok := c.objs[o]; ok {
		return n
	}
	n := &Obj{agg: o.agg}
	c.objs[o] = n
	if o.agg {
		n.kids = make([]*Obj, len(o.kids))
		for i, k := range o.kids {
			n.kids[i] = c.obj(k)
		}
	} else {
		n.leaf = c.val(o.leaf)
	}
	return n
}

func (c *cloner) val(v Value) Value {
	switch x := v.(type) {
	case *Obj:
		return c.obj(x)
	case Slice:
		return Slice{arr: c.obj(x.arr), off: x.off, len: x.len, cap: x.cap}
	case Agg:
		n := make(Agg, len(x))
		for i := range x {
			n[i] = c.val(x[i])
		}
		return n
	case Tuple:
		n := make(Tuple, len(x))
		for i := range x {
			n[i] = c.val(x[i])
		}
		return n
	case Iface:
		return Iface{t: x.t, v: c.val(x.v)}
	case *Closure:
		if x == nil {
			return x
		}
		n := &Closure{fn: x.fn, bind: make([]Value, len(x.bind))}
		for i := range x.bind {
			n.bind[i] = c.val(x.bind[i])
		}
		return n
	case *MapV:
		if x == nil {
			return x
		}
		if n, ok := c.maps[x]; ok {
			return n
		}
		n := &MapV{}
		c.maps[x] = n
		n.keys = make([]Value, len(x.keys))
		n.vals = make([]Value, len(x.vals))
		for i := range x.keys {
			n.keys[i] = c.val(x.keys[i])
			n.vals[i] = c.val(x.vals[i])
		}
		return n
	case SStr:
		return x // immutable
	}
	return v
}

func sstr(s string) SStr {
	r := make(SStr, len(s))
	for i := 0; i < len(s); i++ {
		r[i] = int64(s[i])
	}
	return r
}

// concreteString returns the Go string if every byte is concrete.
func (s SStr) concrete() (string, bool) {
	b := make([]byte, len(s))
	for i, c := range s {
		v, ok := c.(int64)
		if !ok {
			return "", false
		}
		b[i] = byte(v)
	}
	return string(b), true
}

func isUnsigned(t types.Type) bool {
	b, ok := t.Underlying().(*types.Basic)
	return ok && b.Info()&types.IsUnsigned != 0
}

func isString(t types.Type) bool {
	b, ok := t.Underlying().(*types.Basic)
	return ok && b.Info()&types.IsString != 0
}

func isFloat(t types.Type) bool {
	b, ok := t.Underlying().(*types.Basic)
	return ok && b.Info()&types.IsFloat != 0
}

func isInteger(t types.Type) bool {
	b, ok := t.Underlying().(*types.Basic)
	return ok && b.Info()&types.IsInteger != 0
}

// width returns the bit width of a basic integer type (0 for bool).
func width(t types.Type) int {
	b, ok := t.Underlying().(*types.Basic)
	if !ok {
		return 64
	}
	switch b.Kind() {
	case types.Int8, types.Uint8:
		return 8
	case types.Int16, types.Uint16:
		return 16
	case types.Int32, types.Uint32:
		return 32
	case types.Bool, types.UntypedBool:
		return 0
	}
	return 64
}

// norm wraps v to the width/signedness of t.
func norm(v int64, t types.Type) int64 {
	w := width(t)
	if w == 64 || w == 0 {
		return v
	}
	u := uint64(v) & mask(w)
	if !isUnsigned(t) && u&(1<<uint(w-1)) != 0 {
		u |= ^mask(w)
	}
	return int64(u)
}
