// Package c16: CopyFile, CopyFileHash and HashFile return a nil error only if
// the destination holds the source's bytes and permission bits and the digest
// is the digest of those bytes; any failing step yields a non-nil error.
package c16

import (
	"errors"
	"io/fs"

	"github.com/avfs/avfs"
	"github.com/avfs/avfs/vfs/failfs"

	"verif/harness/hx"
	"verif/harness/sym"
)

func init() {
	sym.Register("c16.HCopy", HCopy)
	sym.Register("c16.HHash", HHash)
}

var errInjected = errors.New("injected fault")

// recHash is a hash.Hash that records what it is given; its "digest" is the
// recorded byte sequence, so digest equality is content equality.
type recHash struct{ buf []byte }

func (h *recHash) Write(p []byte) (int, error) { h.buf = append(h.buf, p...); return len(p), nil }
func (h *recHash) Sum(b []byte) []byte         { return append(b, h.buf...) }
func (h *recHash) Reset()                      { h.buf = nil }
func (h *recHash) Size() int                   { return len(h.buf) }
func (h *recHash) BlockSize() int              { return 1 }

func bytesEq(a, b []byte) bool {
	if len(a) != len(b) {
		return false
	}
	for i := range a {
		if a[i] != b[i] {
			return false
		}
	}
	return true
}

func content(n int) []byte {
	if n <= 8 {
		return sym.Bytes("data", n)
	}
	// around the 32 KiB copy buffer the content is concrete (position-dependent)
	b := make([]byte, n)
	for i := range b {
		b[i] = byte(i*7 + i>>8)
	}
	return b
}

// HCopy: copy between file systems of kinds srcKind/dstKind with a fault plan
// chosen by the solver: invocation i of the failure function (on either side)
// fails iff the symbolic boolean fail#i; at most maxFaults faults per plan.
func HCopy(srcKind, dstKind, n, hashed, maxFaults int) {
	srcBase := hx.NewBase(srcKind)
	dstBase := hx.NewBase(dstKind)
	data := content(n)
	perm := fs.FileMode(sym.Uint32("perm")) & 0o777
	hx.Must(srcBase.MkdirAll("/w", 0o755))
	hx.Must(dstBase.MkdirAll("/w", 0o755))
	hx.Must(srcBase.WriteFile("/w/src", data, 0o600))
	hx.Must(srcBase.Chmod("/w/src", perm))
	// the destination may pre-exist: empty, or longer than the source, with another mode
	switch sym.Choose("pre", 3) {
	case 1:
		hx.Must(dstBase.WriteFile("/w/dst", nil, 0o640))
	case 2:
		old := make([]byte, n+2)
		for i := range old {
			old[i] = 0xEE
		}
		hx.Must(dstBase.WriteFile("/w/dst", old, 0o640))
	}
	src := failfs.New(srcBase)
	dst := failfs.New(dstBase)
	fired := 0
	consulted := 0
	srcCloseFaults := 0
	firedAt := ""
	ff := func(v avfs.VFSBase, fn avfs.FnVFS, fp *failfs.FailParam) error {
		consulted++
		if fired < maxFaults && sym.Bool("fail") {
			fired++
			// closing the source (read side) is the one step whose failure the
			// property does not require to be reported
			if fn == avfs.FnFileClose && v == avfs.VFSBase(src) {
				srcCloseFaults++
			} else if firedAt == "" {
				firedAt = fn.String()
			}
			return errInjected
		}
		return nil
	}
	_ = src.SetFailFunc(ff)
	_ = dst.SetFailFunc(ff)
	label := hx.KindName(srcKind) + ">" + hx.KindName(dstKind)
	sym.Label(label + "|CopyFileHash")
	sym.Reach("copy")
	var sum []byte
	var err error
	var h *recHash
	res := sym.Outcome(func() {
		if hashed == 1 {
			h = &recHash{}
			sum, err = avfs.CopyFileHash(dst, src, "/w/dst", "/w/src", h)
		} else {
			err = avfs.CopyFile(dst, src, "/w/dst", "/w/src")
		}
	})
	sym.Assert(!res.Panicked, "C16|"+label+"|panic|"+res.Class+"|"+res.Site)
	sym.Observe("err", err != nil)
	sym.Observe("fired", fired)
	sym.Observe("consulted", consulted)
	if fired > srcCloseFaults {
		sym.Reach("fault-fired")
		sym.Assert(err != nil, "C16|copy|fault-at-"+firedAt+"|reported-success")
	}
	if err == nil {
		sym.Reach("copy-ok")
		got, rerr := dstBase.ReadFile("/w/dst")
		sym.Assert(rerr == nil, "C16|copy|success-but-destination-unreadable")
		sym.Assert(bytesEq(got, data), "C16|copy|success-but-content-differs")
		fi, serr := dstBase.Stat("/w/dst")
		sym.Assert(serr == nil && fi.Mode().Perm() == perm, "C16|copy|success-but-permissions-differ")
		if hashed == 1 {
			sym.Assert(bytesEq(sum, data), "C16|copy|success-but-digest-wrong")
		}
	}
}

// HHash: HashFile with a fault plan.
func HHash(kind, n, maxFaults int) {
	base := hx.NewBase(kind)
	data := content(n)
	hx.Must(base.MkdirAll("/w", 0o755))
	hx.Must(base.WriteFile("/w/src", data, 0o600))
	v := failfs.New(base)
	fired := 0
	closeFaults := 0
	firedAt := ""
	_ = v.SetFailFunc(func(_ avfs.VFSBase, fn avfs.FnVFS, fp *failfs.FailParam) error {
		if fired < maxFaults && sym.Bool("fail") {
			fired++
			if fn == avfs.FnFileClose {
				closeFaults++
			} else if firedAt == "" {
				firedAt = fn.String()
			}
			return errInjected
		}
		return nil
	})
	sym.Label(hx.KindName(kind) + "|HashFile")
	sym.Reach("hash")
	h := &recHash{}
	var sum []byte
	var err error
	res := sym.Outcome(func() { sum, err = avfs.HashFile(v, "/w/src", h) })
	sym.Assert(!res.Panicked, "C16|hash|panic|"+res.Class+"|"+res.Site)
	sym.Observe("err", err != nil)
	if fired > closeFaults {
		sym.Assert(err != nil, "C16|hash|fault-at-"+firedAt+"|reported-success")
	}
	if err == nil {
		sym.Assert(bytesEq(sum, data), "C16|hash|success-but-digest-wrong")
	}
}
