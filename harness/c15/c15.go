// Package c15: MemIdm versus a two-list reference model, step by step.
package c15

import (
	"github.com/avfs/avfs"
	"github.com/avfs/avfs/idm/memidm"

	"verif/harness/sym"
)

func init() {
	sym.Register("c15.HSeq", HSeq)
}

type ent struct {
	name  string
	id    int
	gid   int
	alive bool
}

type model struct {
	users, groups  []ent
	maxUid, maxGid int
}

func newModel() *model {
	return &model{users: []ent{{"root", 0, 0, true}}, groups: []ent{{"root", 0, 0, true}}, maxUid: 1000, maxGid: 1000}
}

func find(es []ent, name string) int {
	for i := range es {
		if es[i].alive && es[i].name == name {
			return i
		}
	}
	return -1
}

func findId(es []ent, id int) int {
	for i := range es {
		if es[i].alive && es[i].id == id {
			return i
		}
	}
	return -1
}

// error kinds
const (
	eNone = iota
	eExistsGroup
	eExistsUser
	eUnknownGroup
	eUnknownUser
	eUnknownGroupId
	eUnknownUserId
	eOther
)

var kindNames = []string{"ok", "AlreadyExistsGroupError", "AlreadyExistsUserError", "UnknownGroupError", "UnknownUserError", "UnknownGroupIdError", "UnknownUserIdError", "other"}

// classify returns the documented error type and its payload (name or id rendered by the caller).
func classify(err error) (kind int, sname string, id int) {
	switch e := err.(type) {
	case nil:
		return eNone, "", 0
	case avfs.AlreadyExistsGroupError:
		return eExistsGroup, string(e), 0
	case avfs.AlreadyExistsUserError:
		return eExistsUser, string(e), 0
	case avfs.UnknownGroupError:
		return eUnknownGroup, string(e), 0
	case avfs.UnknownUserError:
		return eUnknownUser, string(e), 0
	case avfs.UnknownGroupIdError:
		return eUnknownGroupId, "", int(e)
	case avfs.UnknownUserIdError:
		return eUnknownUserId, "", int(e)
	}
	return eOther, "", 0
}

var ops = []string{"AddGroup", "AddUser", "DelGroup", "DelUser", "LookupGroup", "LookupGroupId", "LookupUser", "LookupUserId"}

// NumOps is len(ops).
const NumOps = 8

// pick returns a name: one of the pool (incl. the administrator's name) or a fully symbolic string of n bytes.
func pick(tag string, n int) string {
	switch sym.Choose(tag+"src", 4) {
	case 0:
		return "root"
	case 1:
		return "a"
	case 2:
		return "b"
	}
	return sym.String(tag, n)
}

// HSeq: a history of L calls on a fresh MemIdm, in lock-step with the model.
func HSeq(L, n int) {
	idm := memidm.New()
	m := newModel()
	sym.Reach("start")
	// the administrator exists from the start
	au := idm.AdminUser()
	ag := idm.AdminGroup()
	sym.Assert(au != nil && au.Uid() == 0 && au.IsAdmin() && ag != nil && ag.Gid() == 0, "C15|start|administrator-missing")
	for step := 0; step < L; step++ {
		op := ops[sym.Choose("op", NumOps)]
		sym.Label("memidm|" + op)
		switch op {
		case "AddGroup":
			name := pick("g", n)
			g, err := idm.AddGroup(name)
			k, s, _ := classify(err)
			if find(m.groups, name) >= 0 {
				sym.Assert(k == eExistsGroup && s == name, "C15|AddGroup|duplicate|got-"+kindNames[k])
			} else {
				m.maxGid++
				m.groups = append(m.groups, ent{name, m.maxGid, 0, true})
				sym.Assert(k == eNone, "C15|AddGroup|new|got-"+kindNames[k])
				if k == eNone {
					sym.Assert(g.Name() == name && g.Gid() == m.maxGid, "C15|AddGroup|new|wrong-identity")
				}
			}
		case "AddUser":
			name := pick("u", n)
			gname := pick("g", n)
			u, err := idm.AddUser(name, gname)
			k, s, _ := classify(err)
			gi := find(m.groups, gname)
			switch {
			case gi < 0:
				sym.Assert(k == eUnknownGroup && s == gname, "C15|AddUser|unknown-group|got-"+kindNames[k])
			case find(m.users, name) >= 0:
				sym.Assert(k == eExistsUser && s == name, "C15|AddUser|duplicate|got-"+kindNames[k])
			default:
				m.maxUid++
				m.users = append(m.users, ent{name, m.maxUid, m.groups[gi].id, true})
				sym.Assert(k == eNone, "C15|AddUser|new|got-"+kindNames[k])
				if k == eNone {
					sym.Assert(u.Name() == name && u.Uid() == m.maxUid && u.Gid() == m.groups[gi].id, "C15|AddUser|new|wrong-identity")
					sym.Assert(!u.IsAdmin(), "C15|AddUser|new|non-administrator-reported-as-administrator")
				}
			}
		case "DelGroup":
			name := pick("g", n)
			k, s, _ := classify(idm.DelGroup(name))
			if i := find(m.groups, name); i >= 0 {
				m.groups[i].alive = false
				sym.Assert(k == eNone, "C15|DelGroup|existing|got-"+kindNames[k])
			} else {
				sym.Assert(k == eUnknownGroup && s == name, "C15|DelGroup|unknown|got-"+kindNames[k])
			}
		case "DelUser":
			name := pick("u", n)
			k, s, _ := classify(idm.DelUser(name))
			if i := find(m.users, name); i >= 0 {
				m.users[i].alive = false
				sym.Assert(k == eNone, "C15|DelUser|existing|got-"+kindNames[k])
			} else {
				sym.Assert(k == eUnknownUser && s == name, "C15|DelUser|unknown|got-"+kindNames[k])
			}
		case "LookupGroup":
			name := pick("g", n)
			g, err := idm.LookupGroup(name)
			k, s, _ := classify(err)
			if i := find(m.groups, name); i >= 0 {
				sym.Assert(k == eNone && g.Gid() == m.groups[i].id && g.Name() == name, "C15|LookupGroup|existing|got-"+kindNames[k])
			} else {
				sym.Assert(k == eUnknownGroup && s == name, "C15|LookupGroup|unknown|got-"+kindNames[k])
			}
		case "LookupGroupId":
			id := sym.Int("gid")
			g, err := idm.LookupGroupId(id)
			k, _, eid := classify(err)
			if i := findId(m.groups, id); i >= 0 {
				sym.Assert(k == eNone && g.Gid() == id && g.Name() == m.groups[i].name, "C15|LookupGroupId|existing|got-"+kindNames[k])
			} else {
				sym.Assert(k == eUnknownGroupId && eid == id, "C15|LookupGroupId|unknown|got-"+kindNames[k])
			}
		case "LookupUser":
			name := pick("u", n)
			u, err := idm.LookupUser(name)
			k, s, _ := classify(err)
			if i := find(m.users, name); i >= 0 {
				sym.Assert(k == eNone && u.Uid() == m.users[i].id && u.Gid() == m.users[i].gid && u.Name() == name, "C15|LookupUser|existing|got-"+kindNames[k])
				if k == eNone {
					sym.Assert(u.IsAdmin() == (m.users[i].id == 0), "C15|LookupUser|IsAdmin-not-exactly-the-administrator")
				}
			} else {
				sym.Assert(k == eUnknownUser && s == name, "C15|LookupUser|unknown|got-"+kindNames[k])
			}
		case "LookupUserId":
			id := sym.Int("uid")
			u, err := idm.LookupUserId(id)
			k, _, eid := classify(err)
			if i := findId(m.users, id); i >= 0 {
				sym.Assert(k == eNone && u.Uid() == id && u.Name() == m.users[i].name, "C15|LookupUserId|existing|got-"+kindNames[k])
				if k == eNone {
					sym.Assert(u.IsAdmin() == (id == 0), "C15|LookupUserId|IsAdmin-not-exactly-the-administrator")
				}
			} else {
				sym.Assert(k == eUnknownUserId && eid == id, "C15|LookupUserId|unknown|got-"+kindNames[k])
			}
		}
		// whole-state agreement: by-name and by-id views equal the model
		sym.Label("memidm|state-after-" + op)
		for i := range m.groups {
			e := m.groups[i]
			g, err := idm.LookupGroup(e.name)
			g2, err2 := idm.LookupGroupId(e.id)
			if e.alive {
				sym.Assert(err == nil && g.Gid() == e.id, "C15|state|group-by-name-disagrees")
				sym.Assert(err2 == nil && g2.Name() == e.name, "C15|state|group-by-id-disagrees")
			} else {
				if find(m.groups, e.name) < 0 {
					sym.Assert(err != nil, "C15|state|deleted-group-still-found-by-name")
				}
				sym.Assert(err2 != nil, "C15|state|deleted-group-id-still-found-or-reassigned")
			}
		}
		for i := range m.users {
			e := m.users[i]
			u, err := idm.LookupUser(e.name)
			u2, err2 := idm.LookupUserId(e.id)
			if e.alive {
				sym.Assert(err == nil && u.Uid() == e.id && u.Gid() == e.gid, "C15|state|user-by-name-disagrees")
				sym.Assert(err2 == nil && u2.Name() == e.name, "C15|state|user-by-id-disagrees")
			} else {
				if find(m.users, e.name) < 0 {
					sym.Assert(err != nil, "C15|state|deleted-user-still-found-by-name")
				}
				sym.Assert(err2 != nil, "C15|state|deleted-user-id-still-found-or-reassigned")
			}
		}
	}
	sym.Reach("end")
}
