// Package c15: MemIdm versus a two-list reference model, step by step.
package c15

import (
	"strconv"
	"sync"

	"github.com/avfs/avfs"
	"github.com/avfs/avfs/idm/memidm"

	"verif/harness/sym"
)

func init() {
	sym.Register("c15.HSeq", HSeq)
	sym.Register("c15.HConc", HConc)
}

type ent struct {
	name  string
	id    int
	gid   int
	alive bool
}

type model struct {
	users, groups  []ent
	maxUid, maxGid int
}

func newModel() *model {
	return &model{users: []ent{{"root", 0, 0, true}}, groups: []ent{{"root", 0, 0, true}}, maxUid: 1000, maxGid: 1000}
}

func find(es []ent, name string) int {
	for i := range es {
		if es[i].alive && es[i].name == name {
			return i
		}
	}
	return -1
}

func findId(es []ent, id int) int {
	for i := range es {
		if es[i].alive && es[i].id == id {
			return i
		}
	}
	return -1
}

// error kinds
const (
	eNone = iota
	eExistsGroup
	eExistsUser
	eUnknownGroup
	eUnknownUser
	eUnknownGroupId
	eUnknownUserId
	eOther
)

var kindNames = []string{"ok", "AlreadyExistsGroupError", "AlreadyExistsUserError", "UnknownGroupError", "UnknownUserError", "UnknownGroupIdError", "UnknownUserIdError", "other"}

// classify returns the documented error type and its payload (name or id rendered by the caller).
func classify(err error) (kind int, sname string, id int) {
	switch e := err.(type) {
	case nil:
		return eNone, "", 0
	case avfs.AlreadyExistsGroupError:
		return eExistsGroup, string(e), 0
	case avfs.AlreadyExistsUserError:
		return eExistsUser, string(e), 0
	case avfs.UnknownGroupError:
		return eUnknownGroup, string(e), 0
	case avfs.UnknownUserError:
		return eUnknownUser, string(e), 0
	case avfs.UnknownGroupIdError:
		return eUnknownGroupId, "", int(e)
	case avfs.UnknownUserIdError:
		return eUnknownUserId, "", int(e)
	}
	return eOther, "", 0
}

var ops = []string{"AddGroup", "AddUser", "DelGroup", "DelUser", "LookupGroup", "LookupGroupId", "LookupUser", "LookupUserId"}

// NumOps is len(ops).
const NumOps = 8

// forced is one call of a concrete prefix history (u: user name, g: group name).
type forced struct{ op, u, g string }

// Prefixes are concrete histories run (in lock-step with the model, under the
// same assertions) before the symbolic steps, so that short symbolic histories
// start from states that need several calls to reach.
var Prefixes = [][]forced{
	nil,
	{{"AddUser", "a", "root"}, {"DelUser", "a", ""}},
	{{"AddGroup", "", "a"}, {"DelGroup", "", "a"}},
	{{"AddGroup", "", "a"}, {"AddUser", "a", "a"}, {"DelGroup", "", "a"}},
	{{"DelUser", "root", ""}},
	{{"AddGroup", "", "b"}, {"AddUser", "b", "b"}, {"DelUser", "b", ""}, {"DelGroup", "", "b"}},
}

// NumPrefixes is len(Prefixes).
const NumPrefixes = 6

var (
	script  []forced
	curStep int
)

// pick returns a name: one of the pool (incl. the administrator's name) or a fully symbolic string of n bytes.
func pick(tag string, n int) string {
	if curStep < len(script) {
		if tag == "u" {
			return script[curStep].u
		}
		return script[curStep].g
	}
	switch sym.Choose(tag+"src", 4) {
	case 0:
		return "root"
	case 1:
		return "a"
	case 2:
		return "b"
	}
	return sym.String(tag, n)
}

// HSeq: a history of L calls on a fresh MemIdm, in lock-step with the model.
func HSeq(L, n, pre int) {
	script = Prefixes[pre]
	L += len(script)
	idm := memidm.New()
	m := newModel()
	sym.Reach("start")
	// the administrator exists from the start
	au := idm.AdminUser()
	ag := idm.AdminGroup()
	sym.Assert(au != nil && au.Uid() == 0 && au.IsAdmin() && ag != nil && ag.Gid() == 0, "C15|start|administrator-missing")
	for step := 0; step < L; step++ {
		curStep = step
		var op string
		if step < len(script) {
			op = script[step].op
		} else {
			op = ops[sym.Choose("op", NumOps)]
		}
		sym.Label("memidm|" + op)
		switch op {
		case "AddGroup":
			name := pick("g", n)
			g, err := idm.AddGroup(name)
			k, s, _ := classify(err)
			if find(m.groups, name) >= 0 {
				sym.Assert(k == eExistsGroup && s == name, "C15|AddGroup|duplicate|got-"+kindNames[k])
			} else {
				m.maxGid++
				m.groups = append(m.groups, ent{name, m.maxGid, 0, true})
				sym.Assert(k == eNone, "C15|AddGroup|new|got-"+kindNames[k])
				if k == eNone {
					sym.Assert(g.Name() == name && g.Gid() == m.maxGid, "C15|AddGroup|new|wrong-identity")
				}
			}
		case "AddUser":
			name := pick("u", n)
			gname := pick("g", n)
			u, err := idm.AddUser(name, gname)
			k, s, _ := classify(err)
			gi := find(m.groups, gname)
			switch {
			case gi < 0:
				sym.Assert(k == eUnknownGroup && s == gname, "C15|AddUser|unknown-group|got-"+kindNames[k])
			case find(m.users, name) >= 0:
				sym.Assert(k == eExistsUser && s == name, "C15|AddUser|duplicate|got-"+kindNames[k])
			default:
				m.maxUid++
				m.users = append(m.users, ent{name, m.maxUid, m.groups[gi].id, true})
				sym.Assert(k == eNone, "C15|AddUser|new|got-"+kindNames[k])
				if k == eNone {
					sym.Assert(u.Name() == name && u.Uid() == m.maxUid && u.Gid() == m.groups[gi].id, "C15|AddUser|new|wrong-identity")
					sym.Assert(!u.IsAdmin(), "C15|AddUser|new|non-administrator-reported-as-administrator")
				}
			}
		case "DelGroup":
			name := pick("g", n)
			k, s, _ := classify(idm.DelGroup(name))
			if i := find(m.groups, name); i >= 0 {
				m.groups[i].alive = false
				sym.Assert(k == eNone, "C15|DelGroup|existing|got-"+kindNames[k])
			} else {
				sym.Assert(k == eUnknownGroup && s == name, "C15|DelGroup|unknown|got-"+kindNames[k])
			}
		case "DelUser":
			name := pick("u", n)
			k, s, _ := classify(idm.DelUser(name))
			if i := find(m.users, name); i >= 0 {
				m.users[i].alive = false
				sym.Assert(k == eNone, "C15|DelUser|existing|got-"+kindNames[k])
			} else {
				sym.Assert(k == eUnknownUser && s == name, "C15|DelUser|unknown|got-"+kindNames[k])
			}
		case "LookupGroup":
			name := pick("g", n)
			g, err := idm.LookupGroup(name)
			k, s, _ := classify(err)
			if i := find(m.groups, name); i >= 0 {
				sym.Assert(k == eNone && g.Gid() == m.groups[i].id && g.Name() == name, "C15|LookupGroup|existing|got-"+kindNames[k])
			} else {
				sym.Assert(k == eUnknownGroup && s == name, "C15|LookupGroup|unknown|got-"+kindNames[k])
			}
		case "LookupGroupId":
			id := sym.Int("gid")
			g, err := idm.LookupGroupId(id)
			k, _, eid := classify(err)
			if i := findId(m.groups, id); i >= 0 {
				sym.Assert(k == eNone && g.Gid() == id && g.Name() == m.groups[i].name, "C15|LookupGroupId|existing|got-"+kindNames[k])
			} else {
				sym.Assert(k == eUnknownGroupId && eid == id, "C15|LookupGroupId|unknown|got-"+kindNames[k])
			}
		case "LookupUser":
			name := pick("u", n)
			u, err := idm.LookupUser(name)
			k, s, _ := classify(err)
			if i := find(m.users, name); i >= 0 {
				sym.Assert(k == eNone && u.Uid() == m.users[i].id && u.Gid() == m.users[i].gid && u.Name() == name, "C15|LookupUser|existing|got-"+kindNames[k])
				if k == eNone {
					sym.Assert(u.IsAdmin() == (m.users[i].id == 0), "C15|LookupUser|IsAdmin-not-exactly-the-administrator")
				}
			} else {
				sym.Assert(k == eUnknownUser && s == name, "C15|LookupUser|unknown|got-"+kindNames[k])
			}
		case "LookupUserId":
			id := sym.Int("uid")
			u, err := idm.LookupUserId(id)
			k, _, eid := classify(err)
			if i := findId(m.users, id); i >= 0 {
				sym.Assert(k == eNone && u.Uid() == id && u.Name() == m.users[i].name, "C15|LookupUserId|existing|got-"+kindNames[k])
				if k == eNone {
					sym.Assert(u.IsAdmin() == (id == 0), "C15|LookupUserId|IsAdmin-not-exactly-the-administrator")
				}
			} else {
				sym.Assert(k == eUnknownUserId && eid == id, "C15|LookupUserId|unknown|got-"+kindNames[k])
			}
		}
		// whole-state agreement: by-name and by-id views equal the model
		sym.Label("memidm|state-after-" + op)
		for i := range m.groups {
			e := m.groups[i]
			g, err := idm.LookupGroup(e.name)
			g2, err2 := idm.LookupGroupId(e.id)
			if e.alive {
				sym.Assert(err == nil && g.Gid() == e.id, "C15|state|group-by-name-disagrees")
				sym.Assert(err2 == nil && g2.Name() == e.name, "C15|state|group-by-id-disagrees")
			} else {
				if find(m.groups, e.name) < 0 {
					sym.Assert(err != nil, "C15|state|deleted-group-still-found-by-name")
				}
				sym.Assert(err2 != nil, "C15|state|deleted-group-id-still-found-or-reassigned")
			}
		}
		for i := range m.users {
			e := m.users[i]
			u, err := idm.LookupUser(e.name)
			u2, err2 := idm.LookupUserId(e.id)
			if e.alive {
				sym.Assert(err == nil && u.Uid() == e.id && u.Gid() == e.gid, "C15|state|user-by-name-disagrees")
				sym.Assert(err2 == nil && u2.Name() == e.name, "C15|state|user-by-id-disagrees")
			} else {
				if find(m.users, e.name) < 0 {
					sym.Assert(err != nil, "C15|state|deleted-user-still-found-by-name")
				}
				sym.Assert(err2 != nil, "C15|state|deleted-user-id-still-found-or-reassigned")
			}
		}
	}
	sym.Reach("end")
}

// ---- concurrent histories ----

// ConcOps are the calls of the concurrent harness (names from a small pool).
var ConcOps = []string{"AddGroup(x)", "AddGroup(y)", "DelGroup(g)", "AddUser(v,g)", "AddUser(v,x)", "DelUser(u)", "LookupUser(u)", "LookupGroup(g)", "AddUser(w,g)", "LookupGroup(x)", "AddGroup(g)"}

// NumConcOps is len(ConcOps).
const NumConcOps = 11

func ek(err error) string {
	k, s, id := classify(err)
	return kindNames[k] + ":" + s + ":" + strconv.Itoa(id)
}

func runIdm(idm *memidm.MemIdm, i int) string {
	switch ConcOps[i] {
	case "AddGroup(x)":
		g, err := idm.AddGroup("x")
		if err == nil {
			return "ok:" + strconv.Itoa(g.Gid())
		}
		return ek(err)
	case "AddGroup(y)":
		g, err := idm.AddGroup("y")
		if err == nil {
			return "ok:" + strconv.Itoa(g.Gid())
		}
		return ek(err)
	case "AddGroup(g)":
		g, err := idm.AddGroup("g")
		if err == nil {
			return "ok:" + strconv.Itoa(g.Gid())
		}
		return ek(err)
	case "DelGroup(g)":
		return ek(idm.DelGroup("g"))
	case "AddUser(v,g)":
		u, err := idm.AddUser("v", "g")
		if err == nil {
			return "ok:" + strconv.Itoa(u.Uid()) + "," + strconv.Itoa(u.Gid())
		}
		return ek(err)
	case "AddUser(w,g)":
		u, err := idm.AddUser("w", "g")
		if err == nil {
			return "ok:" + strconv.Itoa(u.Uid()) + "," + strconv.Itoa(u.Gid())
		}
		return ek(err)
	case "AddUser(v,x)":
		u, err := idm.AddUser("v", "x")
		if err == nil {
			return "ok:" + strconv.Itoa(u.Uid()) + "," + strconv.Itoa(u.Gid())
		}
		return ek(err)
	case "DelUser(u)":
		return ek(idm.DelUser("u"))
	case "LookupUser(u)":
		u, err := idm.LookupUser("u")
		if err == nil {
			return "ok:" + strconv.Itoa(u.Uid())
		}
		return ek(err)
	case "LookupGroup(g)":
		g, err := idm.LookupGroup("g")
		if err == nil {
			return "ok:" + strconv.Itoa(g.Gid())
		}
		return ek(err)
	case "LookupGroup(x)":
		g, err := idm.LookupGroup("x")
		if err == nil {
			return "ok:" + strconv.Itoa(g.Gid())
		}
		return ek(err)
	}
	return "?"
}

func freshIdm() *memidm.MemIdm {
	idm := memidm.New()
	_, _ = idm.AddGroup("g")
	_, _ = idm.AddUser("u", "g")
	return idm
}

// state renders everything observable: by-name and by-id lookups over the pool.
func state(idm *memidm.MemIdm) string {
	out := ""
	for _, n := range []string{"root", "g", "x", "y"} {
		g, err := idm.LookupGroup(n)
		if err == nil {
			out += n + "=" + strconv.Itoa(g.Gid()) + ";"
		} else {
			out += n + "=-;"
		}
	}
	for _, n := range []string{"root", "u", "v", "w"} {
		u, err := idm.LookupUser(n)
		if err == nil {
			out += n + "=" + strconv.Itoa(u.Uid()) + "," + strconv.Itoa(u.Gid()) + ";"
		} else {
			out += n + "=-;"
		}
	}
	for id := 1000; id <= 1004; id++ {
		if g, err := idm.LookupGroupId(id); err == nil {
			out += "g" + strconv.Itoa(id) + "=" + g.Name() + ";"
		}
		if u, err := idm.LookupUserId(id); err == nil {
			out += "u" + strconv.Itoa(id) + "=" + u.Name() + ";"
		}
	}
	return out
}

// HConc: two goroutines, one MemIdm call each on a shared instance; under every
// schedule the results and the final state equal those of a sequential order.
func HConc(a, b int) {
	label := "memidm|" + ConcOps[a] + "|" + ConcOps[b]
	sym.Label(label)
	sym.Reach("concurrent")
	idm := freshIdm()
	res := make([]string, 2)
	var wg sync.WaitGroup
	wg.Add(2)
	go func() { defer wg.Done(); res[0] = runIdm(idm, a) }()
	go func() { defer wg.Done(); res[1] = runIdm(idm, b) }()
	wg.Wait()
	sym.Reach("joined")
	st := state(idm)
	ok := false
	for _, first := range []int{0, 1} {
		ref := freshIdm()
		r := make([]string, 2)
		if first == 0 {
			r[0] = runIdm(ref, a)
			r[1] = runIdm(ref, b)
		} else {
			r[1] = runIdm(ref, b)
			r[0] = runIdm(ref, a)
		}
		if r[0] == res[0] && r[1] == res[1] && state(ref) == st {
			ok = true
		}
	}
	sym.Assert(ok, "C15|"+label+"|not-linearizable")
}
