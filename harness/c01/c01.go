// Package c01: namespace operations of MemFS/OrefaFS (Linux emulation,
// administrator) versus posixref, call by call, with the full observable tree
// compared after every call; natively every witness is also run through the
// real kernel (package os on tmpfs) and the model must agree with it.
package c01

import (
	"github.com/avfs/avfs"

	"verif/harness/hx"
	"verif/harness/posix"
	"verif/harness/sym"
	"verif/harness/sysx"
)

func init() {
	sym.Register("c01.HStep", HStep)
	sym.Register("c01.HStep2", HStep2)
	sym.Register("c01.HRel", HRel)
	sym.Register("c01.HUnclean", HUnclean)
	sym.Register("c01.HTemp", HTemp)
}

// Templates.
var Templates = []string{"Mkdir", "MkdirAll", "OpenFile", "WriteFile", "Remove", "RemoveAll", "Rename", "Link", "Symlink", "Truncate", "Chmod", "Chown", "Lchown", "Chtimes", "Query"}

// NumTemplates is len(Templates).
const NumTemplates = 15

var targets = []string{"a", "/w/a", "../w/b", "nope", "a/a", "."}

func twoPath(t string) bool { return t == "Rename" || t == "Link" }

func needsSymlink(t string) bool { return t == "Symlink" || t == "Lchown" }

// Op is one call with its scalar arguments.
type Op struct {
	T      string
	P, Q   string
	Flag   int
	Perm   uint32
	Size   int64
	Uid    int
	Gid    int
	Data   []byte
	Target string
}

// pickOp chooses operands from the universe and makes the scalars symbolic
// (within the stated bit bounds).
func pickOp(t string, tag string) Op {
	op := Op{T: t}
	n := len(sysx.Universe)
	op.P = sysx.Universe[sym.Choose(tag+"p", n)]
	if twoPath(t) {
		op.Q = sysx.Universe[sym.Choose(tag+"q", n)]
	}
	return pickScalars(op, tag)
}

// pickScalars makes the scalar arguments of op symbolic (within the stated bit bounds).
func pickScalars(op Op, tag string) Op {
	t := op.T
	switch t {
	case "Mkdir", "MkdirAll":
		op.Perm = sym.Uint32(tag+"perm") & 0o777
	case "OpenFile":
		op.Flag = sym.Int(tag+"flag") & (3 | posix.OCreate | posix.OExcl | posix.OTrunc | posix.OAppend)
		sym.Assume(op.Flag&3 != 3)
		op.Perm = sym.Uint32(tag+"perm") & 0o777
		if sym.Choose(tag+"write", 2) == 1 {
			op.Data = sym.Bytes(tag+"data", 1)
		}
	case "WriteFile":
		op.Flag = posix.OWronly | posix.OCreate | posix.OTrunc
		op.Perm = sym.Uint32(tag+"perm") & 0o777
		op.Data = sym.Bytes(tag+"data", 2)
	case "Symlink":
		op.Target = targets[sym.Choose(tag+"t", len(targets))]
	case "Truncate":
		op.Size = sym.Int64(tag + "size")
		sym.Assume(op.Size >= -2 && op.Size <= 4)
	case "Chmod":
		op.Perm = sym.Uint32(tag+"mode") & 0o7777
	case "Chown", "Lchown":
		op.Uid = sym.Int(tag + "uid")
		op.Gid = sym.Int(tag + "gid")
		sym.Assume(op.Uid >= -1 && op.Uid <= 70000 && op.Gid >= -1 && op.Gid <= 70000)
	}
	return op
}

// apply performs op in world w and returns its result codes.
func apply(w sysx.Sys, op Op) (int, int) {
	switch op.T {
	case "Mkdir":
		return w.Mkdir(op.P, op.Perm), 0
	case "MkdirAll":
		return w.MkdirAll(op.P, op.Perm), 0
	case "OpenFile", "WriteFile":
		return w.OpenWrite(op.P, op.Flag, op.Perm, op.Data)
	case "Remove":
		return w.Remove(op.P), 0
	case "RemoveAll":
		return w.RemoveAll(op.P), 0
	case "Rename":
		return w.Rename(op.P, op.Q), 0
	case "Link":
		return w.Link(op.P, op.Q), 0
	case "Symlink":
		return w.Symlink(op.Target, op.P), 0
	case "Truncate":
		return w.Truncate(op.P, op.Size), 0
	case "Chmod":
		return w.Chmod(op.P, op.Perm), 0
	case "Chown":
		return w.Chown(op.P, op.Uid, op.Gid), 0
	case "Lchown":
		return w.Lchown(op.P, op.Uid, op.Gid), 0
	case "Chtimes":
		return w.Chtimes(op.P), 0
	case "Query":
		_, c := w.Stat(op.P)
		return c, 0
	}
	return 0, 0
}

func relation(m sysx.Sys, op Op) string {
	if !twoPath(op.T) {
		return ""
	}
	p, q := op.P, op.Q
	switch {
	case p == q:
		return ",same"
	case len(q) > len(p) && q[:len(p)] == p && q[len(p)] == '/':
		return ",src-above-dst"
	case len(p) > len(q) && p[:len(q)] == q && p[len(q)] == '/':
		return ",dst-above-src"
	}
	return ""
}

func bytesEq(a, b []byte) bool {
	if len(a) != len(b) {
		return false
	}
	for i := range a {
		if a[i] != b[i] {
			return false
		}
	}
	return true
}

func namesEq(a, b []string) bool {
	if len(a) != len(b) {
		return false
	}
	for i := range a {
		if a[i] != b[i] {
			return false
		}
	}
	return true
}

// compare asserts that worlds a and b are indistinguishable on the universe.
func compare(a, b sysx.Sys, sigPrefix string, extra []string, owners bool) {
	paths := sysx.Universe
	if len(extra) > 0 {
		paths = append(append([]string{}, sysx.Universe...), extra...)
	}
	for _, p := range paths {
		sa, ca := a.Lstat(p)
		sb, cb := b.Lstat(p)
		sym.Assert(ca == cb, sigPrefix+"|state|lstat-errno")
		if ca != 0 || cb != 0 {
			continue
		}
		sym.Assert(sa.Kind == sb.Kind, sigPrefix+"|state|type")
		if sa.Kind != sb.Kind {
			continue
		}
		if owners {
			sym.Assert(sa.Uid == sb.Uid && sa.Gid == sb.Gid, sigPrefix+"|state|owner")
		}
		switch sa.Kind {
		case posix.KFile:
			sym.Assert(sa.Perm == sb.Perm, sigPrefix+"|state|perm")
			sym.Assert(sa.Nlink == sb.Nlink, sigPrefix+"|state|nlink")
			sym.Assert(sa.Size == sb.Size, sigPrefix+"|state|size")
			da, ea := a.ReadFile(p)
			db, eb := b.ReadFile(p)
			sym.Assert(ea == eb && bytesEq(da, db), sigPrefix+"|state|content")
		case posix.KDir:
			sym.Assert(sa.Perm == sb.Perm, sigPrefix+"|state|perm")
			na, ea := a.ReadDir(p)
			nb, eb := b.ReadDir(p)
			sym.Assert(ea == eb && namesEq(na, nb), sigPrefix+"|state|listing")
		case posix.KLink:
			ta, ea := a.Readlink(p)
			tb, eb := b.Readlink(p)
			sym.Assert(ea == eb && ta == tb, sigPrefix+"|state|link-target")
		}
	}
}

type worlds struct {
	owners bool // the file system advertises an identity manager: owners are compared
	impl   sysx.Sys
	model  sysx.Sys
	kern   *sysx.KernelSys
	fs     string
	rel    string // HRel: class of the relative operand(s); replaces the operand kinds in signatures
}

func setup(kind, seed int) (worlds, bool) {
	v := hx.NewBase(kind)
	if seed == 3 && !v.HasFeature(avfs.FeatSymlink) {
		return worlds{}, false
	}
	w := worlds{impl: sysx.ImplSys{V: v}, model: sysx.ModelSys{F: posix.New()}, fs: hx.KindName(kind), owners: v.HasFeature(avfs.FeatIdentityMgr)}
	sysx.Seed(w.impl, seed)
	sysx.Seed(w.model, seed)
	if sym.Native() {
		w.kern = sysx.NewKernel()
		sysx.Seed(w.kern, seed)
	}
	return w, true
}

// step applies op to all worlds and asserts equal outcome and equal trees.
func (w worlds) step(op Op) { w.stepc(op) }

// stepc is step returning the implementation's and the model's result codes.
func (w worlds) stepc(op Op) (int, int) {
	kinds := sysx.Kind(w.model, op.P)
	if twoPath(op.T) {
		kinds += "," + sysx.Kind(w.model, op.Q) + relation(w.model, op)
	}
	if op.T == "Symlink" {
		kinds = "target:" + op.Target + "," + kinds
	}
	label := w.fs + "|" + op.T + "|" + kinds
	if w.rel != "" {
		sym.Observe("kinds", kinds)
		label = w.fs + "|relative|" + op.T + "|" + w.rel
	}
	sym.Label(label)
	var ci, ci2 int
	res := sym.Outcome(func() { ci, ci2 = apply(w.impl, op) })
	sym.Assert(!res.Panicked, "C01|"+label+"|panic|"+res.Class+"|"+res.Site)
	cm, cm2 := apply(w.model, op)
	sym.Observe("impl", ci)
	sym.Observe("model", cm)
	if w.kern != nil {
		ck, ck2 := apply(w.kern, op)
		sym.Assert(ck == cm && ck2 == cm2, "ORACLE|"+label+"|errno|kernel-"+hx.CodeName(ck)+"|model-"+hx.CodeName(cm))
		compare(w.kern, w.model, "ORACLE|"+label, nil, true)
	}
	sym.Assert(ci == cm, "C01|"+label+"|errno|got-"+hx.CodeName(ci)+"|want-"+hx.CodeName(cm))
	sym.Assert(ci2 == cm2, "C01|"+label+"|write-errno|got-"+hx.CodeName(ci2)+"|want-"+hx.CodeName(cm2))
	if op.T == "Query" && ci == 0 && cm == 0 {
		// read-only queries: Stat through links
		sa, _ := w.impl.Stat(op.P)
		sb, _ := w.model.Stat(op.P)
		sym.Assert(sa.Kind == sb.Kind && sa.Size == sb.Size || sa.Kind == posix.KDir && sb.Kind == posix.KDir, "C01|"+label+"|stat-result")
	}
	compare(w.impl, w.model, "C01|"+label, nil, w.owners)
	return ci, cm
}

func (w worlds) done() {
	if w.kern != nil {
		w.kern.Done()
	}
}

// HStep: one call (template t) from seed tree s on file system kind.
func HStep(kind, seed, t int) {
	name := Templates[t]
	w, ok := setup(kind, seed)
	if !ok {
		return
	}
	defer w.done()
	if needsSymlink(name) && kind == hx.KOrefa && name == "Symlink" {
		return
	}
	sym.Reach("step")
	w.step(pickOp(name, ""))
}

// HStep2: two calls; the first is a mutating template t1, the second any template t2.
func HStep2(kind, seed, t1, t2 int) {
	w, ok := setup(kind, seed)
	if !ok {
		return
	}
	defer w.done()
	if kind == hx.KOrefa && (Templates[t1] == "Symlink" || Templates[t2] == "Symlink") {
		return
	}
	sym.Reach("step2")
	// first step: operands range over the universe, scalars are fixed; only
	// histories whose first call succeeds identically on both sides continue
	// (a failed first call leaves the tree as it was - asserted by step - so the
	// second call is then already covered by HStep)
	ci, cm := w.stepc(pickOpFixed(Templates[t1], "a"))
	if ci != 0 || cm != 0 {
		return
	}
	sym.Reach("step2-second")
	w.step(pickOp(Templates[t2], "b"))
}

// pickOpFixed: operands from the universe, concrete scalars.
func pickOpFixed(t string, tag string) Op {
	op := Op{T: t}
	n := len(sysx.Universe)
	op.P = sysx.Universe[sym.Choose(tag+"p", n)]
	if twoPath(t) {
		op.Q = sysx.Universe[sym.Choose(tag+"q", n)]
	}
	switch t {
	case "Mkdir":
		op.Perm = 0o750
	case "OpenFile":
		op.Flag = posix.OWronly | posix.OCreate | posix.OTrunc
		op.Perm = 0o640
		op.Data = []byte("q")
	case "Symlink":
		op.Target = targets[sym.Choose(tag+"t", len(targets))]
	case "Truncate":
		op.Size = 1
	}
	return op
}

// relative operands, resolved from the current directory
var relPaths = []string{"b", "a/a", "../b", ".", "..", "", "./a", "b/../a", "a/../c"}
var relClass = []string{"plain", "plain", "parent-relative", "dot", "dotdot", "empty", "dot-prefix", "inner-dotdot", "inner-dotdot"}
var cwds = []string{"/w", "/w/a"}

// HRel: Chdir to a directory of the seed tree, then one call (template t) whose
// operand is a relative path (two-path templates: one side relative, the other
// a fixed absolute name); errno and the whole tree (read back through absolute
// paths) must equal the model's (natively: the kernel's, with the process's
// working directory changed accordingly).
func HRel(kind, seed, t int) {
	name := Templates[t]
	w, ok := setup(kind, seed)
	if !ok {
		return
	}
	defer w.done()
	if kind == hx.KOrefa && name == "Symlink" {
		return
	}
	cwd := cwds[sym.Choose("cwd", len(cwds))]
	ci := w.impl.Chdir(cwd)
	cm := w.model.Chdir(cwd)
	if w.kern != nil {
		ck := w.kern.Chdir(cwd)
		sym.Assert(ck == cm, "ORACLE|Chdir|"+cwd+"|kernel-"+hx.CodeName(ck)+"|model-"+hx.CodeName(cm))
	}
	sym.Assert(ci == cm, "C01|"+w.fs+"|Chdir|"+sysx.Kind(w.model, cwd)+"|errno|got-"+hx.CodeName(ci)+"|want-"+hx.CodeName(cm))
	if ci != 0 || cm != 0 {
		return
	}
	sym.Reach("relative")
	op := pickScalars(Op{T: name}, "")
	pi := sym.Choose("rp", len(relPaths))
	// the scratch root's parent is not the root in the kernel world
	sym.Assume(!(cwd == "/w" && relPaths[pi] == ".."))
	class := relClass[pi]
	if twoPath(name) {
		if sym.Choose("side", 2) == 0 {
			op.P, op.Q = relPaths[pi], "/w/c"
			class += ",abs"
		} else {
			op.P, op.Q = "/w/b", relPaths[pi]
			class = "abs," + class
		}
	} else {
		op.P = relPaths[pi]
	}
	w.rel = class
	w.step(op)
}

// HUnclean: a path that is not lexically clean behaves exactly as its Clean() form.
// p = "/w/" + n symbolic bytes (NUL excluded); twin instances from seed 1.
func HUnclean(kind, t, n int) {
	name := Templates[t]
	s := "/w/" + sym.String("s", n)
	for i := 3; i < len(s); i++ {
		sym.Assume(s[i] != 0)
	}
	va := hx.NewBase(kind)
	vb := hx.NewBase(kind)
	a := sysx.ImplSys{V: va}
	b := sysx.ImplSys{V: vb}
	sysx.Seed(a, 1)
	sysx.Seed(b, 1)
	clean := va.Clean(s)
	sym.Assume(clean != s)
	sym.Label(hx.KindName(kind) + "|" + name + "|unclean")
	sym.Reach("unclean")
	op := Op{T: name, P: s, Q: "/w/c", Perm: 0o755, Flag: posix.ORdwr | posix.OCreate, Target: "a"}
	opc := op
	opc.P = clean
	var ca, cb int
	res := sym.Outcome(func() { ca, _ = apply(a, op) })
	sym.Assert(!res.Panicked, "C01|"+hx.KindName(kind)+"|"+name+"|unclean|panic|"+res.Class+"|"+res.Site)
	cb, _ = apply(b, opc)
	sym.Observe("unclean", ca)
	sym.Observe("clean", cb)
	sym.Assert(ca == cb, "C01|"+hx.KindName(kind)+"|"+name+"|unclean-vs-clean|errno|got-"+hx.CodeName(ca)+"|want-"+hx.CodeName(cb))
	sym.Assert(hx.Snapshot(va, "/w", false) == hx.Snapshot(vb, "/w", false), "C01|"+hx.KindName(kind)+"|"+name+"|unclean-vs-clean|tree-differs")
}

// HTemp: CreateTemp/MkdirTemp with the symbolic random-name stub: the created
// name has the pattern's prefix and suffix, did not exist before, and an
// existing candidate is skipped.
func HTemp(kind, dirMode int) {
	v := hx.NewBase(kind)
	hx.Must(v.MkdirAll("/w", 0o755))
	// both candidate names of the stubbed generator may pre-exist
	pre0 := sym.Bool("pre0")
	pre1 := sym.Bool("pre1")
	if pre0 {
		hx.Must(v.WriteFile("/w/t0x", nil, 0o644))
	}
	if pre1 {
		hx.Must(v.WriteFile("/w/t1x", nil, 0o644))
	}
	sym.Label(hx.KindName(kind) + "|Temp")
	sym.Reach("temp")
	before, _ := v.ReadDir("/w")
	var name string
	var err error
	if dirMode == 1 {
		name, err = v.MkdirTemp("/w", "t*x")
	} else {
		var f avfs.File
		f, err = v.CreateTemp("/w", "t*x")
		if err == nil {
			name = f.Name()
			_ = f.Close()
		}
	}
	if err != nil {
		return
	}
	sym.Assert(len(name) >= 6 && name[:4] == "/w/t" && name[len(name)-1] == 'x', "C01|"+hx.KindName(kind)+"|Temp|name-does-not-match-pattern")
	for _, e := range before {
		sym.Assert("/w/"+e.Name() != name, "C01|"+hx.KindName(kind)+"|Temp|existing-name-reused")
	}
	_, serr := v.Lstat(name)
	sym.Assert(serr == nil, "C01|"+hx.KindName(kind)+"|Temp|returned-name-does-not-exist")
}
