package sysx

import (
	"errors"
	"io"
	"io/fs"
	"os"
	"path/filepath"
	"sort"
	"strings"
	"syscall"
	"time"

	"verif/harness/hx"
	"verif/harness/posix"
)

// KernelSys executes the calls through package os under a scratch directory on
// tmpfs; virtual absolute paths are mapped below Root. Native runs only.
type KernelSys struct {
	Root     string
	realRoot *os.File // chroot mode: the real root directory
	dir      string   // chroot mode: the scratch directory (real path)
}

// NewKernel creates a fresh scratch directory under /dev/shm.
func NewKernel() *KernelSys {
	syscall.Umask(0o022)
	d, err := os.MkdirTemp("/dev/shm", "verif-k")
	if err != nil {
		panic(err)
	}
	_ = os.Chmod(d, 0o755)
	return &KernelSys{Root: d}
}

// Done removes the scratch directory.
func (k *KernelSys) Done() {
	if k.realRoot != nil {
		// leave the chroot
		_ = k.realRoot.Chdir()
		_ = syscall.Chroot(".")
		_ = k.realRoot.Close()
		_ = os.Chdir("/")
		_ = filepathWalkChmod(k.dir)
		_ = os.RemoveAll(k.dir)
		return
	}
	_ = os.Chdir("/")
	_ = os.Chmod(k.Root, 0o755)
	_ = filepathWalkChmod(k.Root)
	_ = os.RemoveAll(k.Root)
}

func filepathWalkChmod(root string) error {
	es, _ := os.ReadDir(root)
	for _, e := range es {
		p := root + "/" + e.Name()
		if e.IsDir() {
			_ = os.Chmod(p, 0o755)
			_ = filepathWalkChmod(p)
		}
	}
	return nil
}

func (k *KernelSys) m(p string) string {
	if strings.HasPrefix(p, "/") {
		return k.Root + p
	}
	return p
}

// KCode maps an error of package os to a code.
func KCode(err error) int {
	if err == nil {
		return 0
	}
	if err == io.EOF {
		return hx.EOF
	}
	if errors.Is(err, os.ErrClosed) {
		return hx.ErrClosed
	}
	var en syscall.Errno
	if errors.As(err, &en) {
		return int(en)
	}
	if strings.Contains(err.Error(), "negative offset") {
		return hx.ErrNegOff
	}
	if strings.Contains(err.Error(), "O_APPEND") {
		return hx.ErrAppendAt
	}
	if errors.Is(err, fs.ErrInvalid) {
		return hx.ErrInvalid
	}
	return hx.ErrOther
}

func (k *KernelSys) Mkdir(p string, perm uint32) int { return KCode(os.Mkdir(k.m(p), GoMode(perm))) }
func (k *KernelSys) MkdirAll(p string, perm uint32) int {
	return KCode(os.MkdirAll(k.m(p), GoMode(perm)))
}
func (k *KernelSys) OpenWrite(p string, flag int, perm uint32, data []byte) (int, int) {
	f, err := os.OpenFile(k.m(p), flag, GoMode(perm))
	if err != nil {
		return KCode(err), 0
	}
	w := 0
	if data != nil {
		_, werr := f.Write(data)
		w = KCode(werr)
	}
	_ = f.Close()
	return 0, w
}
func (k *KernelSys) Remove(p string) int             { return KCode(os.Remove(k.m(p))) }
func (k *KernelSys) RemoveAll(p string) int          { return KCode(os.RemoveAll(k.m(p))) }
func (k *KernelSys) Rename(o, n string) int          { return KCode(os.Rename(k.m(o), k.m(n))) }
func (k *KernelSys) Link(o, n string) int            { return KCode(os.Link(k.m(o), k.m(n))) }
func (k *KernelSys) Symlink(t, n string) int         { return KCode(os.Symlink(k.m(t), k.m(n))) }
func (k *KernelSys) Truncate(p string, sz int64) int { return KCode(os.Truncate(k.m(p), sz)) }
func (k *KernelSys) Chmod(p string, m uint32) int    { return KCode(os.Chmod(k.m(p), GoMode(m))) }
func (k *KernelSys) Chown(p string, u, g int) int    { return KCode(os.Chown(k.m(p), u, g)) }
func (k *KernelSys) Lchown(p string, u, g int) int   { return KCode(os.Lchown(k.m(p), u, g)) }
// Chdir changes the working directory of the process (native runs are sequential).
func (k *KernelSys) Chdir(p string) int { return KCode(os.Chdir(k.m(p))) }

func (k *KernelSys) Chtimes(p string) int {
	return KCode(os.Chtimes(k.m(p), time.Unix(1000, 0), time.Unix(2000, 0)))
}

func kstat(fi fs.FileInfo) Stat {
	m := fi.Mode()
	s := Stat{Perm: uint32(m.Perm()), Size: fi.Size()}
	if m&fs.ModeSetuid != 0 {
		s.Perm |= 0o4000
	}
	if m&fs.ModeSetgid != 0 {
		s.Perm |= 0o2000
	}
	if m&fs.ModeSticky != 0 {
		s.Perm |= 0o1000
	}
	if st, ok := fi.Sys().(*syscall.Stat_t); ok {
		s.Uid, s.Gid, s.Nlink = int(st.Uid), int(st.Gid), int(st.Nlink)
	}
	switch {
	case m&fs.ModeSymlink != 0:
		s.Kind = posix.KLink
	case m.IsDir():
		s.Kind = posix.KDir
	default:
		s.Kind = posix.KFile
	}
	return s
}

func (k *KernelSys) Lstat(p string) (Stat, int) {
	fi, err := os.Lstat(k.m(p))
	if err != nil {
		return Stat{}, KCode(err)
	}
	return kstat(fi), 0
}
func (k *KernelSys) Stat(p string) (Stat, int) {
	fi, err := os.Stat(k.m(p))
	if err != nil {
		return Stat{}, KCode(err)
	}
	return kstat(fi), 0
}
func (k *KernelSys) Readlink(p string) (string, int) {
	t, err := os.Readlink(k.m(p))
	if err != nil {
		return "", KCode(err)
	}
	return strings.TrimPrefix(t, k.Root), 0
}
func (k *KernelSys) ReadDir(p string) ([]string, int) {
	es, err := os.ReadDir(k.m(p))
	if err != nil {
		return nil, KCode(err)
	}
	out := make([]string, len(es))
	for i, e := range es {
		out[i] = e.Name()
	}
	sort.Strings(out)
	return out, 0
}
func (k *KernelSys) ReadFile(p string) ([]byte, int) {
	b, err := os.ReadFile(k.m(p))
	return b, KCode(err)
}

// KernelFiles is the open-file world of the real kernel.
type KernelFiles struct {
	K  *KernelSys
	Fs []*os.File
}

func (s *KernelFiles) Open(p string, flag int, perm uint32) (int, int) {
	f, err := os.OpenFile(s.K.m(p), flag, GoMode(perm))
	if err != nil {
		return -1, KCode(err)
	}
	s.Fs = append(s.Fs, f)
	return len(s.Fs) - 1, 0
}
func (s *KernelFiles) Read(h, n int) ([]byte, int) {
	b := make([]byte, n)
	k, err := s.Fs[h].Read(b)
	return b[:k], KCode(err)
}
func (s *KernelFiles) ReadAt(h, n int, off int64) ([]byte, int) {
	b := make([]byte, n)
	k, err := s.Fs[h].ReadAt(b, off)
	return b[:k], KCode(err)
}
func (s *KernelFiles) Write(h int, b []byte) (int, int) {
	k, err := s.Fs[h].Write(b)
	return k, KCode(err)
}
func (s *KernelFiles) WriteAt(h int, b []byte, off int64) (int, int) {
	k, err := s.Fs[h].WriteAt(b, off)
	return k, KCode(err)
}
func (s *KernelFiles) Seek(h int, off int64, whence int) (int64, int) {
	r, err := s.Fs[h].Seek(off, whence)
	return r, KCode(err)
}
func (s *KernelFiles) FTruncate(h int, size int64) int { return KCode(s.Fs[h].Truncate(size)) }
func (s *KernelFiles) FStat(h int) (Stat, int) {
	fi, err := s.Fs[h].Stat()
	if err != nil {
		return Stat{}, KCode(err)
	}
	return kstat(fi), 0
}
func (s *KernelFiles) FSync(h int) int                { return KCode(s.Fs[h].Sync()) }
func (s *KernelFiles) FChmod(h int, mode uint32) int  { return KCode(s.Fs[h].Chmod(GoMode(mode))) }
func (s *KernelFiles) FChown(h int, uid, gid int) int { return KCode(s.Fs[h].Chown(uid, gid)) }
func (s *KernelFiles) Close(h int) int                { return KCode(s.Fs[h].Close()) }
func (s *KernelFiles) Readdirnames(h, n int) ([]string, int) {
	ns, err := s.Fs[h].Readdirnames(n)
	return ns, KCode(err)
}

// CloseAll closes what is still open.
func (s *KernelFiles) CloseAll() {
	for _, f := range s.Fs {
		_ = f.Close()
	}
}

// EvalSymlinks through path/filepath on the real tree.
func (k *KernelSys) EvalSymlinks(p string) (string, int) {
	r, err := filepath.EvalSymlinks(k.m(p))
	if err != nil {
		if strings.Contains(err.Error(), "too many links") {
			return "", hx.ELOOP
		}
		return "", KCode(err)
	}
	return strings.TrimPrefix(r, k.Root), 0
}

// NewKernelChroot creates a scratch directory and confines the process to it
// with chroot(2), so that symbolic links with arbitrary targets ("/..",
// "../..") cannot reach anything outside; virtual paths are used as they are.
func NewKernelChroot() *KernelSys {
	syscall.Umask(0o022)
	root, err := os.Open("/")
	if err != nil {
		panic(err)
	}
	d, err := os.MkdirTemp("/dev/shm", "verif-c")
	if err != nil {
		panic(err)
	}
	_ = os.Chmod(d, 0o755)
	if err := syscall.Chroot(d); err != nil {
		panic(err)
	}
	_ = os.Chdir("/")
	return &KernelSys{Root: "", realRoot: root, dir: d}
}
