// Package sysx gives one call interface to three worlds: the avfs
// implementation under test (ImplSys), the posixref model (ModelSys) and, in
// native runs only, the real Linux kernel through package os on a tmpfs scratch
// directory (KernelSys, kernel.go). Harnesses apply the same operation to the
// worlds and compare errno codes and observable state field by field.
package sysx

import (
	"io/fs"
	"time"

	"github.com/avfs/avfs"

	"verif/harness/hx"
	"verif/harness/posix"
)

// Stat is the observable part of a file status.
type Stat struct {
	Kind  int // posix.KFile / KDir / KLink
	Perm  uint32
	Uid   int
	Gid   int
	Nlink int
	Size  int64
}

// Sys is the call interface. Every method returns an errno-like code (hx codes).
type Sys interface {
	Mkdir(p string, perm uint32) int
	MkdirAll(p string, perm uint32) int
	// OpenWrite opens p, writes data when data != nil, closes; returns the open and write codes.
	OpenWrite(p string, flag int, perm uint32, data []byte) (int, int)
	Remove(p string) int
	RemoveAll(p string) int
	Rename(o, n string) int
	Link(o, n string) int
	Symlink(target, n string) int
	Truncate(p string, size int64) int
	Chmod(p string, mode uint32) int
	Chown(p string, uid, gid int) int
	Lchown(p string, uid, gid int) int
	Chtimes(p string) int
	// Chdir changes the current directory of the world (relative operands are resolved from it).
	Chdir(p string) int
	Lstat(p string) (Stat, int)
	Stat(p string) (Stat, int)
	Readlink(p string) (string, int)
	ReadDir(p string) ([]string, int)
	ReadFile(p string) ([]byte, int)
}

// ---- implementation under test ----

type ImplSys struct{ V avfs.VFS }

func toStat(v avfs.VFS, fi fs.FileInfo) Stat {
	m := fi.Mode()
	st := v.ToSysStat(fi)
	s := Stat{Perm: uint32(m.Perm()), Uid: st.Uid(), Gid: st.Gid(), Nlink: int(st.Nlink()), Size: fi.Size()}
	if m&fs.ModeSetuid != 0 {
		s.Perm |= 0o4000
	}
	if m&fs.ModeSetgid != 0 {
		s.Perm |= 0o2000
	}
	if m&fs.ModeSticky != 0 {
		s.Perm |= 0o1000
	}
	switch {
	case m&fs.ModeSymlink != 0:
		s.Kind = posix.KLink
	case m.IsDir():
		s.Kind = posix.KDir
	default:
		s.Kind = posix.KFile
	}
	return s
}

// GoMode converts unix permission bits (0o7777) to an fs.FileMode.
func GoMode(perm uint32) fs.FileMode {
	m := fs.FileMode(perm & 0o777)
	if perm&0o4000 != 0 {
		m |= fs.ModeSetuid
	}
	if perm&0o2000 != 0 {
		m |= fs.ModeSetgid
	}
	if perm&0o1000 != 0 {
		m |= fs.ModeSticky
	}
	return m
}

func (s ImplSys) Mkdir(p string, perm uint32) int    { return hx.Code(s.V.Mkdir(p, GoMode(perm))) }
func (s ImplSys) MkdirAll(p string, perm uint32) int { return hx.Code(s.V.MkdirAll(p, GoMode(perm))) }
func (s ImplSys) OpenWrite(p string, flag int, perm uint32, data []byte) (int, int) {
	f, err := s.V.OpenFile(p, flag, GoMode(perm))
	if err != nil {
		return hx.Code(err), 0
	}
	w := 0
	if data != nil {
		_, werr := f.Write(data)
		w = hx.Code(werr)
	}
	_ = f.Close()
	return 0, w
}
func (s ImplSys) Remove(p string) int             { return hx.Code(s.V.Remove(p)) }
func (s ImplSys) RemoveAll(p string) int          { return hx.Code(s.V.RemoveAll(p)) }
func (s ImplSys) Rename(o, n string) int          { return hx.Code(s.V.Rename(o, n)) }
func (s ImplSys) Link(o, n string) int            { return hx.Code(s.V.Link(o, n)) }
func (s ImplSys) Symlink(t, n string) int         { return hx.Code(s.V.Symlink(t, n)) }
func (s ImplSys) Truncate(p string, sz int64) int { return hx.Code(s.V.Truncate(p, sz)) }
func (s ImplSys) Chmod(p string, m uint32) int    { return hx.Code(s.V.Chmod(p, GoMode(m))) }
func (s ImplSys) Chown(p string, u, g int) int    { return hx.Code(s.V.Chown(p, u, g)) }
func (s ImplSys) Lchown(p string, u, g int) int   { return hx.Code(s.V.Lchown(p, u, g)) }
func (s ImplSys) Chtimes(p string) int {
	return hx.Code(s.V.Chtimes(p, time.Unix(1000, 0), time.Unix(2000, 0)))
}
func (s ImplSys) Chdir(p string) int { return hx.Code(s.V.Chdir(p)) }
func (s ImplSys) Lstat(p string) (Stat, int) {
	fi, err := s.V.Lstat(p)
	if err != nil {
		return Stat{}, hx.Code(err)
	}
	return toStat(s.V, fi), 0
}
func (s ImplSys) Stat(p string) (Stat, int) {
	fi, err := s.V.Stat(p)
	if err != nil {
		return Stat{}, hx.Code(err)
	}
	return toStat(s.V, fi), 0
}
func (s ImplSys) Readlink(p string) (string, int) {
	t, err := s.V.Readlink(p)
	return t, hx.Code(err)
}
func (s ImplSys) ReadDir(p string) ([]string, int) {
	es, err := s.V.ReadDir(p)
	if err != nil {
		return nil, hx.Code(err)
	}
	out := make([]string, len(es))
	for i, e := range es {
		out[i] = e.Name()
	}
	return out, 0
}
func (s ImplSys) ReadFile(p string) ([]byte, int) {
	b, err := s.V.ReadFile(p)
	return b, hx.Code(err)
}

// ---- posixref model ----

type ModelSys struct{ F *posix.FS }

func mstat(st posix.Stat) Stat {
	return Stat{Kind: st.Kind, Perm: st.Mode, Uid: st.Uid, Gid: st.Gid, Nlink: st.Nlink, Size: st.Size}
}

func (s ModelSys) Mkdir(p string, perm uint32) int    { return s.F.Mkdir(p, perm) }
func (s ModelSys) MkdirAll(p string, perm uint32) int { return s.F.MkdirAll(p, perm) }
func (s ModelSys) OpenWrite(p string, flag int, perm uint32, data []byte) (int, int) {
	h, e := s.F.OpenFile(p, flag, perm)
	if e != 0 {
		return e, 0
	}
	w := 0
	if data != nil {
		_, w = s.F.Write(h, data)
	}
	return 0, w
}
func (s ModelSys) Remove(p string) int             { return s.F.Remove(p) }
func (s ModelSys) RemoveAll(p string) int          { return s.F.RemoveAll(p) }
func (s ModelSys) Rename(o, n string) int          { return s.F.Rename(o, n) }
func (s ModelSys) Link(o, n string) int            { return s.F.Link(o, n) }
func (s ModelSys) Symlink(t, n string) int         { return s.F.Symlink(t, n) }
func (s ModelSys) Truncate(p string, sz int64) int { return s.F.Truncate(p, sz) }
func (s ModelSys) Chmod(p string, m uint32) int    { return s.F.Chmod(p, m) }
func (s ModelSys) Chown(p string, u, g int) int    { return s.F.Chown(p, u, g) }
func (s ModelSys) Lchown(p string, u, g int) int   { return s.F.Lchown(p, u, g) }
func (s ModelSys) Chtimes(p string) int            { return s.F.Chtimes(p) }
func (s ModelSys) Chdir(p string) int            { return s.F.Chdir(p) }
func (s ModelSys) Lstat(p string) (Stat, int) {
	st, e := s.F.Lstat(p)
	return mstat(st), e
}
func (s ModelSys) Stat(p string) (Stat, int) {
	st, e := s.F.Stat(p)
	return mstat(st), e
}
func (s ModelSys) Readlink(p string) (string, int)  { return s.F.Readlink(p) }
func (s ModelSys) ReadDir(p string) ([]string, int) { return s.F.ReadDir(p) }
func (s ModelSys) ReadFile(p string) ([]byte, int)  { return s.F.ReadFile(p) }

// ---- seeds ----

// Seed builds seed tree s under /w in any world (same trees as hx.Seed; 4: /w/a/a and /w/b are two links of one file, /w/c is another file).
func Seed(w Sys, s int) {
	must(w.MkdirAll("/w", 0o755))
	if s == 0 {
		return
	}
	must(w.Mkdir("/w/a", 0o755))
	c, c2 := w.OpenWrite("/w/a/a", 1|0x40|0x200, 0o644, []byte("x"))
	must(c)
	must(c2)
	switch s {
	case 1:
		c, c2 = w.OpenWrite("/w/b", 1|0x40|0x200, 0o644, []byte("yy"))
		must(c)
		must(c2)
	case 2:
		must(w.Mkdir("/w/a/b", 0o755))
		must(w.Link("/w/a/a", "/w/b"))
	case 3:
		must(w.Symlink("a", "/w/b"))
		must(w.Symlink("nope", "/w/c"))
	case 4:
		// a file with two links plus an unrelated file
		must(w.Link("/w/a/a", "/w/b"))
		// (written longer, then shrunk: growing it again must expose zeros, not the old bytes)
		c, c2 = w.OpenWrite("/w/c", 1|0x40|0x200, 0o600, []byte("zzzzz"))
		must(c)
		must(c2)
		must(w.Truncate("/w/c", 3))
		// a special bit that a later Chmod has to be able to clear
		must(w.Chmod("/w/a", 0o1755))
	}
}

func must(c int) {
	if c != 0 {
		panic("seed construction failed: " + hx.CodeName(c))
	}
}

// Universe is the set of clean paths compared after every step.
var Universe = []string{"/w", "/w/a", "/w/b", "/w/c", "/w/a/a", "/w/a/b", "/w/a/c", "/w/b/a", "/w/c/a"}

// Kind describes what a path is in world w (used in violation signatures).
func Kind(w Sys, p string) string {
	st, e := w.Lstat(p)
	if e != 0 {
		switch e {
		case hx.ENOENT:
			// missing leaf, or missing parent?
			i := len(p) - 1
			for i > 0 && p[i] != '/' {
				i--
			}
			if i > 0 {
				if pst, pe := w.Stat(p[:i]); pe != 0 || pst.Kind != posix.KDir {
					return "missing-parent"
				}
			}
			return "missing"
		case hx.ENOTDIR:
			return "below-file"
		}
		return "unreachable-" + hx.CodeName(e)
	}
	switch st.Kind {
	case posix.KDir:
		if ns, _ := w.ReadDir(p); len(ns) == 0 {
			return "empty-dir"
		}
		return "dir"
	case posix.KLink:
		tst, te := w.Stat(p)
		if te != 0 {
			return "dangling-link"
		}
		if tst.Kind == posix.KDir {
			return "link-to-dir"
		}
		return "link-to-file"
	}
	if st.Nlink > 1 {
		return "multi-linked-file"
	}
	return "file"
}

// EvalSymlinks in the implementation and the model ("too many links" = ELOOP).
func (s ImplSys) EvalSymlinks(p string) (string, int) {
	r, err := s.V.EvalSymlinks(p)
	return r, hx.Code(err)
}

func (s ModelSys) EvalSymlinks(p string) (string, int) { return s.F.EvalSymlinks(p) }
