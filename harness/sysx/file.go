package sysx

import (
	"io/fs"

	"github.com/avfs/avfs"

	"verif/harness/hx"
	"verif/harness/posix"
)

// FileSys is the open-file interface over the three worlds; handles are small integers.
type FileSys interface {
	Open(p string, flag int, perm uint32) (int, int)
	Read(h, n int) ([]byte, int)
	ReadAt(h, n int, off int64) ([]byte, int)
	Write(h int, b []byte) (int, int)
	WriteAt(h int, b []byte, off int64) (int, int)
	Seek(h int, off int64, whence int) (int64, int)
	FTruncate(h int, size int64) int
	FStat(h int) (Stat, int)
	FSync(h int) int
	FChmod(h int, mode uint32) int
	FChown(h int, uid, gid int) int
	Close(h int) int
	Readdirnames(h, n int) ([]string, int)
}

// ---- implementation ----

type ImplFiles struct {
	V  avfs.VFS
	Fs []avfs.File
}

func (s *ImplFiles) Open(p string, flag int, perm uint32) (int, int) {
	f, err := s.V.OpenFile(p, flag, GoMode(perm))
	if err != nil {
		return -1, hx.Code(err)
	}
	s.Fs = append(s.Fs, f)
	return len(s.Fs) - 1, 0
}
func (s *ImplFiles) Read(h, n int) ([]byte, int) {
	b := make([]byte, n)
	k, err := s.Fs[h].Read(b)
	return b[:k], hx.Code(err)
}
func (s *ImplFiles) ReadAt(h, n int, off int64) ([]byte, int) {
	b := make([]byte, n)
	k, err := s.Fs[h].ReadAt(b, off)
	return b[:k], hx.Code(err)
}
func (s *ImplFiles) Write(h int, b []byte) (int, int) {
	k, err := s.Fs[h].Write(b)
	return k, hx.Code(err)
}
func (s *ImplFiles) WriteAt(h int, b []byte, off int64) (int, int) {
	k, err := s.Fs[h].WriteAt(b, off)
	return k, hx.Code(err)
}
func (s *ImplFiles) Seek(h int, off int64, whence int) (int64, int) {
	r, err := s.Fs[h].Seek(off, whence)
	return r, hx.Code(err)
}
func (s *ImplFiles) FTruncate(h int, size int64) int { return hx.Code(s.Fs[h].Truncate(size)) }
func (s *ImplFiles) FStat(h int) (Stat, int) {
	fi, err := s.Fs[h].Stat()
	if err != nil {
		return Stat{}, hx.Code(err)
	}
	return toStat(s.V, fi), 0
}
func (s *ImplFiles) FSync(h int) int                { return hx.Code(s.Fs[h].Sync()) }
func (s *ImplFiles) FChmod(h int, mode uint32) int  { return hx.Code(s.Fs[h].Chmod(GoMode(mode))) }
func (s *ImplFiles) FChown(h int, uid, gid int) int { return hx.Code(s.Fs[h].Chown(uid, gid)) }
func (s *ImplFiles) Close(h int) int                { return hx.Code(s.Fs[h].Close()) }
func (s *ImplFiles) Readdirnames(h, n int) ([]string, int) {
	ns, err := s.Fs[h].Readdirnames(n)
	return ns, hx.Code(err)
}

// ---- model ----

type ModelFiles struct {
	F  *posix.FS
	Hs []*posix.Handle
}

func (s *ModelFiles) Open(p string, flag int, perm uint32) (int, int) {
	h, e := s.F.OpenFile(p, flag, perm)
	if e != 0 {
		return -1, e
	}
	s.Hs = append(s.Hs, h)
	return len(s.Hs) - 1, 0
}
func (s *ModelFiles) Read(h, n int) ([]byte, int) { return s.F.Read(s.Hs[h], n) }
func (s *ModelFiles) ReadAt(h, n int, off int64) ([]byte, int) {
	return s.F.ReadAt(s.Hs[h], n, off)
}
func (s *ModelFiles) Write(h int, b []byte) (int, int) { return s.F.Write(s.Hs[h], b) }
func (s *ModelFiles) WriteAt(h int, b []byte, off int64) (int, int) {
	return s.F.WriteAt(s.Hs[h], b, off)
}
func (s *ModelFiles) Seek(h int, off int64, whence int) (int64, int) {
	return s.F.Seek(s.Hs[h], off, whence)
}
func (s *ModelFiles) FTruncate(h int, size int64) int { return s.F.FTruncate(s.Hs[h], size) }
func (s *ModelFiles) FStat(h int) (Stat, int) {
	st, e := s.F.FStat(s.Hs[h])
	return mstat(st), e
}
func (s *ModelFiles) FSync(h int) int                { return s.F.FSync(s.Hs[h]) }
func (s *ModelFiles) FChmod(h int, mode uint32) int  { return s.F.FChmod(s.Hs[h], mode) }
func (s *ModelFiles) FChown(h int, uid, gid int) int { return s.F.FChown(s.Hs[h], uid, gid) }
func (s *ModelFiles) Close(h int) int                { return s.F.Close(s.Hs[h]) }
func (s *ModelFiles) Readdirnames(h, n int) ([]string, int) {
	return s.F.ReadDirN(s.Hs[h], n)
}

var _ = fs.ModePerm
