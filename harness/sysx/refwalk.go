package sysx

import (
	"path/filepath"
	"strings"

	"verif/harness/posix"
)

// RefGlob is Go 1.23's filepath.Glob algorithm (unix) over a world.
// bad == true stands for filepath.ErrBadPattern.
func RefGlob(w Sys, pattern string) (matches []string, bad bool) {
	return refGlob(w, pattern, 0)
}

func hasMeta(p string) bool { return strings.ContainsAny(p, `*?[\`) }

func cleanGlobPath(p string) string {
	switch p {
	case "":
		return "."
	case "/":
		return p
	}
	return p[:len(p)-1]
}

func refGlob(w Sys, pattern string, depth int) ([]string, bool) {
	if depth == 100 {
		return nil, true
	}
	if _, err := filepath.Match(pattern, ""); err != nil {
		return nil, true
	}
	if !hasMeta(pattern) {
		if _, c := w.Lstat(pattern); c != 0 {
			return nil, false
		}
		return []string{pattern}, false
	}
	dir, file := filepath.Split(pattern)
	dir = cleanGlobPath(dir)
	if !hasMeta(dir) {
		return refGlobDir(w, dir, file, nil)
	}
	if dir == pattern {
		return nil, true
	}
	m, bad := refGlob(w, dir, depth+1)
	if bad {
		return nil, true
	}
	var matches []string
	for _, d := range m {
		matches, bad = refGlobDir(w, d, file, matches)
		if bad {
			return matches, true
		}
	}
	return matches, false
}

func refGlobDir(w Sys, dir, pattern string, matches []string) ([]string, bool) {
	st, c := w.Stat(dir)
	if c != 0 || st.Kind != posix.KDir {
		return matches, false
	}
	names, c := w.ReadDir(dir)
	if c != 0 {
		return matches, false
	}
	for _, n := range names {
		ok, err := filepath.Match(pattern, n)
		if err != nil {
			return matches, true
		}
		if ok {
			matches = append(matches, filepath.Join(dir, n))
		}
	}
	return matches, false
}

// Callback decisions of a walk.
const (
	WNil = iota
	WSkipDir
	WSkipAll
	WErr
)

// Visit is one callback invocation of a walk.
type Visit struct {
	Path  string
	IsDir bool
	Err   bool // the callback was given an error
}

// RefWalkDir is Go 1.23's filepath.WalkDir algorithm over a world; decide
// returns the callback's answer at visit i. The result is the visit sequence
// and whether WalkDir returned the callback's error.
func RefWalkDir(w Sys, root string, decide func(i int) int) (visits []Visit, failed bool) {
	i := 0
	cb := func(p string, isDir bool, gotErr bool) int {
		visits = append(visits, Visit{p, isDir, gotErr})
		d := decide(i)
		i++
		return d
	}
	st, c := w.Lstat(root)
	var r int
	if c != 0 {
		r = cb(root, false, true)
	} else {
		r = refWalk(w, root, st.Kind == posix.KDir, cb)
	}
	return visits, r == WErr
}

func refWalk(w Sys, p string, isDir bool, cb func(string, bool, bool) int) int {
	if r := cb(p, isDir, false); r != WNil || !isDir {
		if r == WSkipDir && isDir {
			r = WNil
		}
		return r
	}
	names, c := w.ReadDir(p)
	if c != 0 {
		r := cb(p, isDir, true)
		if r != WNil {
			if r == WSkipDir && isDir {
				r = WNil
			}
			return r
		}
	}
	for _, n := range names {
		p1 := filepath.Join(p, n)
		st, c := w.Lstat(p1)
		if c != 0 {
			continue
		}
		if r := refWalk(w, p1, st.Kind == posix.KDir, cb); r != WNil {
			if r == WSkipDir {
				break
			}
			return r
		}
	}
	return WNil
}
