package sysx

import (
	"io/fs"
	"runtime"
	"syscall"

	"verif/harness/posix"
)

// Creds switches the acting identity and the umask of a world.
type Creds interface {
	SetCreds(uid, gid int)
	SetUmask(m uint32)
}

// User is a harness identity with arbitrary (symbolic) ids; it is an
// administrator exactly when its uid is 0.
type User struct {
	N        string
	UID, GID int
}

func (u *User) Name() string  { return u.N }
func (u *User) Uid() int      { return u.UID }
func (u *User) Gid() int      { return u.GID }
func (u *User) IsAdmin() bool { return u.UID == 0 }

func (s ImplSys) SetCreds(uid, gid int) { _ = s.V.SetUser(&User{N: "u", UID: uid, GID: gid}) }
func (s ImplSys) SetUmask(m uint32)     { _ = s.V.SetUMask(fs.FileMode(m)) }

func (s ModelSys) SetCreds(uid, gid int) { s.F.Uid, s.F.Gid = uid, gid }
func (s ModelSys) SetUmask(m uint32)     { s.F.Umask = m & 0o777 }

// SetCreds switches the file-system identity of the process (fsuid/fsgid, no
// supplementary groups); the native runner is sequential.
func (k *KernelSys) SetCreds(uid, gid int) {
	runtime.LockOSThread()
	if uid == 0 {
		_ = syscall.Setfsuid(0)
		_ = syscall.Setfsgid(gid)
		return
	}
	_ = syscall.Setgroups([]int{})
	_ = syscall.Setfsgid(gid)
	_ = syscall.Setfsuid(uid)
}

// Restore returns to the administrator identity.
func (k *KernelSys) Restore() {
	_ = syscall.Setfsuid(0)
	_ = syscall.Setfsgid(0)
	syscall.Umask(0o022)
	runtime.UnlockOSThread()
}

func (k *KernelSys) SetUmask(m uint32) { syscall.Umask(int(m & 0o777)) }

var _ = posix.OK
