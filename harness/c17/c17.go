// Package c17 (build tag avfs_setostype): a MemFS/OrefaFS created with OSType
// Windows on this Linux host reports that type, uses '\' and volumes and
// Windows error values; Windows-typed and Linux-typed instances agree call by
// call on success/failure and reach isomorphic trees on portable paths.
package c17

import (
	"errors"
	"io/fs"
	"os"

	"github.com/avfs/avfs"
	"github.com/avfs/avfs/vfs/memfs"
	"github.com/avfs/avfs/vfs/orefafs"

	"verif/harness/hx"
	"verif/harness/sym"
)

func init() {
	sym.Register("c17.HConfig", HConfig)
	sym.Register("c17.HLockstep", HLockstep)
	sym.Register("c17.HVolumes", HVolumes)
	sym.Register("c17.HVolumeIso", HVolumeIso)
}

func newTyped(kind int, t avfs.OSType) avfs.VFS {
	if kind == hx.KOrefa {
		return orefafs.NewWithOptions(&orefafs.Options{OSType: t})
	}
	return memfs.NewWithOptions(&memfs.Options{OSType: t})
}

func osOf(i int) avfs.OSType {
	if i == 1 {
		return avfs.OsWindows
	}
	return avfs.OsLinux
}

func osName(i int) string {
	if i == 1 {
		return "windows"
	}
	return "linux"
}

// HConfig: reported type, separator, features and error table of a freshly constructed file system.
func HConfig(kind, osi int) {
	t := osOf(osi)
	v := newTyped(kind, t)
	label := hx.KindName(kind) + "|" + osName(osi)
	sym.Label(label)
	sym.Reach("config")
	sym.Assert(v.OSType() == t, "C17|"+label+"|reported-ostype")
	sep := uint8('/')
	if osi == 1 {
		sep = '\\'
	}
	sym.Assert(v.PathSeparator() == sep, "C17|"+label+"|path-separator")
	sym.Assert(v.HasFeature(avfs.FeatSetOSType), "C17|"+label+"|feature-setostype-not-advertised")
	_, err := v.Stat(root(v) + "nonexistent")
	var under error
	if pe, ok := err.(*fs.PathError); ok {
		under = pe.Err
	}
	if osi == 1 {
		_, isWin := under.(avfs.WindowsError)
		sym.Assert(isWin, "C17|"+label+"|error-values-not-windows")
		sym.Assert(under == avfs.ErrWinFileNotFound, "C17|"+label+"|not-found-error-value")
	} else {
		_, isLin := under.(avfs.LinuxError)
		sym.Assert(isLin, "C17|"+label+"|error-values-not-linux")
		sym.Assert(under == avfs.ErrNoSuchFileOrDir, "C17|"+label+"|not-found-error-value")
	}
	if vm, ok := v.(avfs.VolumeManager); ok {
		l := vm.VolumeList()
		if osi == 1 {
			sym.Assert(len(l) == 1 && l[0] == "C:", "C17|"+label+"|default-volume")
		} else {
			sym.Assert(len(l) == 0, "C17|"+label+"|volumes-on-linux")
			sym.Assert(vm.VolumeAdd("D:") != nil, "C17|"+label+"|volume-add-accepted-on-linux")
		}
	}
	// the root of the default volume exists and is a directory (OrefaFS cannot
	// address its root directory under either OS type: recorded under C14)
	if kind == hx.KMem {
		fi, rerr := v.Stat(root(v))
		sym.Assert(rerr == nil && fi.IsDir(), "C17|"+label+"|root-missing")
	}
}

func root(v avfs.VFS) string {
	if v.OSType() == avfs.OsWindows {
		return avfs.DefaultVolume + string(v.PathSeparator())
	}
	return "/"
}

// portable universe: component lists under the file system's own root
var universe = [][]string{{"w"}, {"w", "a"}, {"w", "b"}, {"w", "c"}, {"w", "a", "a"}, {"w", "a", "b"}, {"w", "a", "c"}, {"w", "b", "a"}, {"w", "c", "a"}}

func pth(v avfs.VFS, comps []string) string {
	p := root(v)
	for _, c := range comps {
		p = v.Join(p, c)
	}
	return p
}

func seed(v avfs.VFS, s int) {
	hx.Must(v.MkdirAll(pth(v, []string{"w"}), 0o755))
	if s == 0 {
		return
	}
	hx.Must(v.Mkdir(pth(v, []string{"w", "a"}), 0o755))
	hx.Must(v.WriteFile(pth(v, []string{"w", "a", "a"}), []byte("x"), 0o644))
	switch s {
	case 1:
		hx.Must(v.WriteFile(pth(v, []string{"w", "b"}), []byte("yy"), 0o644))
	case 2:
		hx.Must(v.Mkdir(pth(v, []string{"w", "a", "b"}), 0o755))
		hx.Must(v.Link(pth(v, []string{"w", "a", "a"}), pth(v, []string{"w", "b"})))
	}
}

var templates = []string{"Mkdir", "MkdirAll", "OpenFile", "WriteFile", "Remove", "RemoveAll", "Rename", "Link", "Truncate", "Stat", "ReadDir", "ReadFile"}

// NumTemplates is len(templates).
const NumTemplates = 12

type scal struct {
	flag int
	size int64
	data []byte
}

func do(v avfs.VFS, t string, p, q string, s scal) bool {
	return doErr(v, t, p, q, s) == nil
}

// errno unwraps err to the error value of the file system's error table.
func errno(err error) error {
	for err != nil {
		switch e := err.(type) {
		case *fs.PathError:
			err = e.Err
		case *os.LinkError:
			err = e.Err
		default:
			return err
		}
	}
	return nil
}

// class is the portable class of an error.
func class(err error) string {
	switch {
	case err == nil:
		return "ok"
	case errors.Is(err, fs.ErrNotExist):
		return "not-exist"
	case errors.Is(err, fs.ErrExist):
		return "exist"
	case errors.Is(err, fs.ErrPermission):
		return "permission"
	}
	return "other"
}

func doErr(v avfs.VFS, t string, p, q string, s scal) error {
	var err error
	switch t {
	case "Mkdir":
		err = v.Mkdir(p, 0o755)
	case "MkdirAll":
		err = v.MkdirAll(p, 0o755)
	case "OpenFile":
		var f avfs.File
		f, err = v.OpenFile(p, s.flag, 0o644)
		if err == nil {
			_, _ = f.Write(s.data)
			_ = f.Close()
		}
	case "WriteFile":
		err = v.WriteFile(p, s.data, 0o644)
	case "Remove":
		err = v.Remove(p)
	case "RemoveAll":
		err = v.RemoveAll(p)
	case "Rename":
		err = v.Rename(p, q)
	case "Link":
		err = v.Link(p, q)
	case "Truncate":
		err = v.Truncate(p, s.size)
	case "Stat":
		_, err = v.Stat(p)
	case "ReadDir":
		_, err = v.ReadDir(p)
	case "ReadFile":
		_, err = v.ReadFile(p)
	}
	return err
}

// entry renders what is observable at a path, OS-independent parts only.
func entry(v avfs.VFS, p string) string {
	fi, err := v.Lstat(p)
	if err != nil {
		return "-"
	}
	if fi.IsDir() {
		es, _ := v.ReadDir(p)
		out := "D"
		for _, e := range es {
			out += "," + e.Name()
		}
		return out
	}
	b, _ := v.ReadFile(p)
	st := v.ToSysStat(fi)
	return "F" + hx.Itoa(int(st.Nlink())) + ":" + hx.Itoa(len(b)) + ":" + string(b)
}

// HLockstep: the same call on a Linux-typed and a Windows-typed instance.
func HLockstep(kind, s, t int) {
	lin := newTyped(kind, avfs.OsLinux)
	win := newTyped(kind, avfs.OsWindows)
	if win.OSType() != avfs.OsWindows {
		sym.Cut("a Windows-typed instance cannot be constructed")
	}
	seed(lin, s)
	seed(win, s)
	name := templates[t]
	pi := sym.Choose("p", len(universe))
	qi := 0
	if name == "Rename" || name == "Link" {
		qi = sym.Choose("q", len(universe))
	}
	var sc scal
	switch name {
	case "OpenFile":
		sc.flag = sym.Int("flag") & (3 | 0x40 | 0x80 | 0x200 | 0x400)
		sym.Assume(sc.flag&3 != 3)
		sc.data = sym.Bytes("data", 1)
	case "WriteFile":
		sc.data = sym.Bytes("data", 2)
	case "Truncate":
		sc.size = sym.Int64("size")
		sym.Assume(sc.size >= -1 && sc.size <= 3)
	}
	label := hx.KindName(kind) + "|" + name + "|" + entryKind(lin, pth(lin, universe[pi]))
	if name == "Rename" || name == "Link" {
		label += "," + entryKind(lin, pth(lin, universe[qi]))
	}
	sym.Label(label)
	sym.Reach("lockstep")
	var okL, okW bool
	var eL, eW error
	res := sym.Outcome(func() {
		eL = doErr(lin, name, pth(lin, universe[pi]), pth(lin, universe[qi]), sc)
		eW = doErr(win, name, pth(win, universe[pi]), pth(win, universe[qi]), sc)
		okL, okW = eL == nil, eW == nil
	})
	sym.Assert(!res.Panicked, "C17|"+label+"|panic|"+res.Class+"|"+res.Site)
	// error values come from the table of the emulated OS (which value is not
	// fixed by the property: the two systems legitimately classify some failures
	// differently, e.g. ENOTDIR vs "path not found")
	if eW != nil {
		_, isWin := errno(eW).(avfs.WindowsError)
		sym.Assert(isWin, "C17|"+label+"|windows-typed-instance-returns-a-non-Windows-error-value")
	}
	if eL != nil {
		_, isLin := errno(eL).(avfs.LinuxError)
		sym.Assert(isLin, "C17|"+label+"|linux-typed-instance-returns-a-non-Linux-error-value")
	}
	sym.Observe("linux-class", class(eL))
	sym.Observe("windows-class", class(eW))
	sym.Observe("linux", okL)
	sym.Observe("windows", okW)
	sym.Assert(okL == okW, "C17|"+label+"|success-differs|linux-"+b2s(okL)+"|windows-"+b2s(okW))
	for _, u := range universe {
		sym.Assert(entry(lin, pth(lin, u)) == entry(win, pth(win, u)), "C17|"+label+"|trees-not-isomorphic")
	}
}

func b2s(b bool) string {
	if b {
		return "ok"
	}
	return "fail"
}

func entryKind(v avfs.VFS, p string) string {
	fi, err := v.Lstat(p)
	switch {
	case err != nil:
		return "missing"
	case fi.IsDir():
		return "dir"
	}
	return "file"
}

var volNames = []string{"D:", "E:", "C:", "x", `D:\`, ""}

// HVolumes: sequences of VolumeAdd / VolumeDelete / VolumeList against a set model.
func HVolumes(L int) {
	v := memfs.NewWithOptions(&memfs.Options{OSType: avfs.OsWindows})
	if v.OSType() != avfs.OsWindows {
		sym.Cut("a Windows-typed instance cannot be constructed")
	}
	sym.Label("memfs|volumes")
	sym.Reach("volumes")
	have := map[string]bool{"C:": true}
	valid := func(n string) (string, bool) {
		if len(n) >= 2 && n[1] == ':' {
			return n[:2], true
		}
		return "", false
	}
	for i := 0; i < L; i++ {
		n := volNames[sym.Choose("vol", len(volNames))]
		vol, ok := valid(n)
		switch sym.Choose("op", 3) {
		case 0:
			err := v.VolumeAdd(n)
			switch {
			case !ok:
				sym.Assert(err != nil, "C17|memfs|VolumeAdd|invalid-name-accepted")
			case have[vol]:
				sym.Assert(err != nil, "C17|memfs|VolumeAdd|duplicate-accepted")
			default:
				sym.Assert(err == nil, "C17|memfs|VolumeAdd|valid-name-refused")
				have[vol] = true
			}
		case 1:
			var err error
			res := sym.Outcome(func() { err = v.VolumeDelete(n) })
			sym.Assert(!res.Panicked, "C17|memfs|VolumeDelete|panic|"+res.Class+"|"+res.Site)
			if !ok || !have[vol] {
				sym.Assert(err != nil, "C17|memfs|VolumeDelete|unknown-volume-accepted")
			} else {
				sym.Assert(err == nil, "C17|memfs|VolumeDelete|existing-volume-refused")
				delete(have, vol)
			}
		case 2:
			l := v.VolumeList()
			sym.Assert(len(l) == len(have), "C17|memfs|VolumeList|count")
			for _, x := range l {
				sym.Assert(have[x], "C17|memfs|VolumeList|unknown-volume-listed")
			}
		}
		// every listed volume has a root directory that can be used
		for vol := range have {
			_, err := v.Stat(vol + `\`)
			sym.Assert(err == nil, "C17|memfs|volume-root-unusable")
		}
	}
}

var isoTargets = []string{"a", `..\a`, `\w\a`, "V:\\w\\a", `..\x\..\a`, `..\..\w\a`}
var isoQueries = [][]string{{"w", "x", "l"}, {"w", "x", "l", "f"}, {"w", "x", "l", "n"}, {"w", "a", "f"}}
var isoOps = []string{"Stat", "ReadFile", "WriteFile", "Mkdir", "ReadDir", "Remove", "Truncate"}

// HVolumeIso: a volume added with VolumeAdd behaves as the default volume: the
// same tree (with a symbolic link whose target is relative, parent-relative,
// rooted or absolute) is built on C: and on D:, one call is made through it on
// each, and outcome, error value and resulting entries are the same.
func HVolumeIso() {
	ti := sym.Choose("target", len(isoTargets))
	qi := sym.Choose("query", len(isoQueries))
	opn := isoOps[sym.Choose("op", len(isoOps))]
	data := sym.Bytes("data", 1)
	label := "memfs|volume-isomorphism|" + opn
	sym.Label(label)
	sym.Reach("volume-iso")
	var errs [2]error
	var ents [2]string
	// two instances: the tree lives on C: in the first and on D: in the second
	// (whose C: stays empty, so that a walk straying to the default volume shows)
	for i, vol := range []string{"C:", "D:"} {
		v := memfs.NewWithOptions(&memfs.Options{OSType: avfs.OsWindows})
		if v.OSType() != avfs.OsWindows {
			sym.Cut("a Windows-typed instance cannot be constructed")
		}
		if vol != "C:" {
			hx.Must(v.VolumeAdd(vol))
		}
		on := func(comps ...string) string {
			p := vol + `\`
			for _, c := range comps {
				p = v.Join(p, c)
			}
			return p
		}
		hx.Must(v.MkdirAll(on("w", "a"), 0o755))
		hx.Must(v.WriteFile(on("w", "a", "f"), []byte("x"), 0o644))
		t := isoTargets[ti]
		if len(t) > 1 && t[0] == 'V' {
			t = vol + t[2:]
		}
		// the link lives in another directory than its target: following it moves the walk
		hx.Must(v.Mkdir(on("w", "x"), 0o755))
		hx.Must(v.Symlink(t, on("w", "x", "l")))
		q := on(isoQueries[qi]...)
		res := sym.Outcome(func() {
			errs[i] = doErr(v, opn, q, "", scal{data: data, size: 0})
		})
		sym.Assert(!res.Panicked, "C17|"+label+"|panic|"+res.Class+"|"+res.Site)
		for _, u := range [][]string{{"w"}, {"w", "a"}, {"w", "a", "f"}, {"w", "a", "n"}, {"w", "x"}, {"w", "x", "l"}} {
			ents[i] += entry(v, on(u...)) + ";"
		}
	}
	sym.Observe("C", class(errs[0]))
	sym.Observe("D", class(errs[1]))
	sym.Assert((errs[0] == nil) == (errs[1] == nil) && errno(errs[0]) == errno(errs[1]), "C17|"+label+"|outcome-on-added-volume-differs-from-default-volume")
	sym.Assert(ents[0] == ents[1], "C17|"+label+"|tree-on-added-volume-differs-from-default-volume")
}
