// Package c14: Glob, WalkDir, ReadDir and the existence helpers enumerate
// exactly what exists: compared with Go's own Glob/WalkDir algorithms run over
// the same file system through Lstat/ReadDir (natively: with filepath.Glob /
// filepath.WalkDir on an identical tree on tmpfs).
package c14

import (
	"errors"
	"io/fs"
	"os"
	"path/filepath"
	"sort"

	"github.com/avfs/avfs"

	"verif/harness/hx"
	"verif/harness/sym"
	"verif/harness/sysx"
)

func init() {
	sym.Register("c14.HGlob", HGlob)
	sym.Register("c14.HWalk", HWalk)
	sym.Register("c14.HHelpers", HHelpers)
}

// tree builds the C14 seed: /w/a/ (a, b files), /w/ab/ (empty), /w/b file, /w/e empty file;
// symlink-capable only: /w/c -> a, /w/d -> ab (empty directory), /w/f -> e (empty file).
func tree(w sysx.Sys, links bool) {
	must(w.MkdirAll("/w/a", 0o755))
	must(w.Mkdir("/w/ab", 0o755))
	for _, p := range []string{"/w/a/a", "/w/a/b", "/w/b"} {
		c, c2 := w.OpenWrite(p, 1|0x40|0x200, 0o644, []byte("x"))
		must(c)
		must(c2)
	}
	c, _ := w.OpenWrite("/w/e", 1|0x40|0x200, 0o644, nil)
	must(c)
	if links {
		must(w.Symlink("a", "/w/c"))
		must(w.Symlink("ab", "/w/d"))
		must(w.Symlink("e", "/w/f"))
	}
}

// prefixes of the Glob patterns: below the scratch directory, at the root, and
// relative to the working directory /w
var globPrefix = []string{"/w/", "/", "", "/w/"}
var globPrefixName = []string{"below-dir", "root-level", "relative", "below-dir-as-user-with-unreadable-dir"}

// unreadable makes /w/ab a directory that can be stat-ed and searched but not
// listed, and switches to a non-administrator (variant 3 of HGlob): Glob and
// the reference algorithm both ignore the directory and keep the other matches.
func unreadable(w interface {
	sysx.Sys
	sysx.Creds
}) {
	must(w.Chmod("/w/ab", 0o311))
	w.SetCreds(1000, 1000)
}

func must(c int) {
	if c != 0 {
		panic("setup failed: " + hx.CodeName(c))
	}
}

func wrapKind(kind int) (avfs.VFS, avfs.VFS) {
	base := hx.NewBase(hx.KMem)
	if kind == hx.KOrefa {
		base = hx.NewBase(hx.KOrefa)
	}
	switch kind {
	case hx.KRo, hx.KFail:
		return hx.WrapOver(kind, base), base
	}
	return base, base
}

func eqStrings(a, b []string) bool {
	if len(a) != len(b) {
		return false
	}
	for i := range a {
		if a[i] != b[i] {
			return false
		}
	}
	return true
}

// HGlob: Glob(prefix + n symbolic bytes) equals Go's Glob algorithm over the same tree.
func HGlob(kind, n, pfx int) {
	v, base := wrapKind(kind)
	links := base.HasFeature(avfs.FeatSymlink)
	tree(sysx.ImplSys{V: base}, links)
	s := sym.String("pat", n)
	for i := 0; i < len(s); i++ {
		sym.Assume(s[i] != 0)
	}
	pattern := globPrefix[pfx] + s
	if pfx == 3 {
		unreadable(sysx.ImplSys{V: base})
	}
	if pfx == 2 {
		sym.Assume(len(s) > 0 && s[0] != '/')
		hx.Must(v.Chdir("/w"))
	}
	label := hx.KindName(kind) + "|Glob|" + globPrefixName[pfx]
	sym.Label(label)
	sym.Reach("glob")
	var got []string
	var gerr error
	res := sym.Outcome(func() { got, gerr = v.Glob(pattern) })
	sym.Assert(!res.Panicked, "C14|"+label+"|panic|"+res.Class+"|"+res.Site)
	want, bad := sysx.RefGlob(sysx.ImplSys{V: base}, pattern)
	if sym.Native() {
		k := sysx.NewKernel()
		tree(k, links)
		if pfx == 3 {
			unreadable(k)
		}
		var km []string
		var kerr error
		if pfx == 2 {
			_ = k.Chdir("/w")
			km, kerr = filepath.Glob(pattern)
		} else {
			km, kerr = filepath.Glob(k.Root + pattern)
			for i := range km {
				km[i] = km[i][len(k.Root):]
			}
		}
		// the port of the algorithm is validated on the kernel's own tree
		kwant, kbad := sysx.RefGlob(k, pattern)
		if pfx == 3 {
			k.Restore()
		}
		k.Done()
		sym.Assert((kerr != nil) == kbad && eqStrings(km, kwant), "ORACLE|"+label+"|filepath.Glob-differs-from-reference")
	}
	sym.Observe("n", len(got))
	sym.Assert((gerr != nil) == bad, "C14|"+label+"|error")
	if gerr != nil {
		sym.Assert(errors.Is(gerr, filepath.ErrBadPattern), "C14|"+label+"|error-is-not-ErrBadPattern")
		return
	}
	sym.Assert(eqStrings(got, want), "C14|"+label+"|matches")
	sym.Assert(len(got) > 0 || got == nil, "C14|"+label+"|empty-result-not-nil")
	sym.Assert(sort.StringsAreSorted(got), "C14|"+label+"|not-sorted")
}

var errStop = errors.New("stop")

// HWalk: WalkDir from root with a callback answering nil / SkipDir / SkipAll /
// an error at every visit (symbolic choice per visit, at most maxVisits visits).
func HWalk(kind, rootIdx, maxVisits int) {
	v, base := wrapKind(kind)
	links := base.HasFeature(avfs.FeatSymlink)
	tree(sysx.ImplSys{V: base}, links)
	roots := []string{"/w", "/w/a", "/w/b", "/w/missing", "/w/c"}
	root := roots[rootIdx]
	label := hx.KindName(kind) + "|WalkDir|" + root
	sym.Label(label)
	sym.Reach("walk")
	var decisions []int
	decide := func(i int) int {
		for len(decisions) <= i {
			d := sysx.WNil
			if len(decisions) < maxVisits {
				d = sym.Choose("decision", 4)
			}
			decisions = append(decisions, d)
		}
		return decisions[i]
	}
	type visit struct {
		p     string
		isDir bool
		err   bool
	}
	var got []visit
	i := 0
	var werr error
	res := sym.Outcome(func() {
		werr = v.WalkDir(root, func(p string, d fs.DirEntry, err error) error {
			got = append(got, visit{p, d != nil && d.IsDir(), err != nil})
			r := decide(i)
			i++
			switch r {
			case sysx.WSkipDir:
				return fs.SkipDir
			case sysx.WSkipAll:
				return fs.SkipAll
			case sysx.WErr:
				return errStop
			}
			return nil
		})
	})
	sym.Assert(!res.Panicked, "C14|"+label+"|panic|"+res.Class+"|"+res.Site)
	want, failed := sysx.RefWalkDir(sysx.ImplSys{V: base}, root, func(i int) int { return decide(i) })
	if sym.Native() {
		k := sysx.NewKernel()
		tree(k, links)
		var kv []sysx.Visit
		j := 0
		kerr := filepath.WalkDir(k.Root+root, func(p string, d fs.DirEntry, err error) error {
			kv = append(kv, sysx.Visit{Path: p[len(k.Root):], IsDir: d != nil && d.IsDir(), Err: err != nil})
			r := decide(j)
			j++
			switch r {
			case sysx.WSkipDir:
				return fs.SkipDir
			case sysx.WSkipAll:
				return fs.SkipAll
			case sysx.WErr:
				return errStop
			}
			return nil
		})
		kwant, kfailed := sysx.RefWalkDir(k, root, func(i int) int { return decide(i) })
		k.Done()
		same := len(kv) == len(kwant) && (kerr != nil) == kfailed
		for x := 0; same && x < len(kv); x++ {
			same = kv[x] == kwant[x]
		}
		sym.Assert(same, "ORACLE|"+label+"|filepath.WalkDir-differs-from-reference")
	}
	sym.Observe("visits", len(got))
	sym.Assert((werr != nil) == failed, "C14|"+label+"|returned-error")
	sym.Assert(len(got) == len(want), "C14|"+label+"|number-of-visits")
	for x := 0; x < len(got) && x < len(want); x++ {
		sym.Assert(got[x].p == want[x].Path && got[x].isDir == want[x].IsDir && got[x].err == want[x].Err, "C14|"+label+"|visit-sequence")
	}
}

// HHelpers: ReadDir is sorted with correct types; Exists/DirExists/IsDir/IsEmpty
// answer what Stat and ReadDir of the same path imply.
func HHelpers(kind, n int) {
	v, base := wrapKind(kind)
	links := base.HasFeature(avfs.FeatSymlink)
	tree(sysx.ImplSys{V: base}, links)
	s := sym.String("p", n)
	for i := 0; i < len(s); i++ {
		sym.Assume(s[i] != 0)
	}
	p := "/w/" + s
	label := hx.KindName(kind) + "|helpers"
	sym.Label(label)
	sym.Reach("helpers")
	fi, serr := v.Stat(p)
	es, rerr := v.ReadDir(p)
	var ex, dex, isd, emp bool
	var e1, e2, e3, e4 error
	res := sym.Outcome(func() {
		ex, e1 = avfs.Exists(v, p)
		dex, e2 = avfs.DirExists(v, p)
		isd, e3 = avfs.IsDir(v, p)
		emp, e4 = avfs.IsEmpty(v, p)
	})
	sym.Assert(!res.Panicked, "C14|"+label+"|panic|"+res.Class+"|"+res.Site)
	notExist := serr != nil && errors.Is(serr, fs.ErrNotExist)
	sym.Assert(ex == (serr == nil) && (e1 == nil) == (serr == nil || notExist), "C14|"+label+"|Exists")
	sym.Assert(dex == (serr == nil && fi.IsDir()), "C14|"+label+"|DirExists")
	_ = e2
	if serr == nil {
		sym.Assert(e3 == nil && isd == fi.IsDir(), "C14|"+label+"|IsDir")
		if fi.IsDir() {
			sym.Assert(e4 == nil && emp == (rerr == nil && len(es) == 0), "C14|"+label+"|IsEmpty-dir")
		} else {
			sym.Assert(e4 == nil && emp == (fi.Size() == 0), "C14|"+label+"|IsEmpty-file")
		}
	} else {
		sym.Assert(e3 != nil, "C14|"+label+"|IsDir-of-missing")
		sym.Assert(e4 != nil && !emp, "C14|"+label+"|IsEmpty-of-missing")
	}
	// the root directory itself can be listed and contains /w
	rootEntries, rootErr := v.ReadDir("/")
	hasW := false
	for _, e := range rootEntries {
		if e.Name() == "w" {
			hasW = true
		}
	}
	sym.Assert(rootErr == nil && hasW, "C14|"+label+"|ReadDir-of-root")
	// ReadDir: sorted, duplicate free, types as Lstat says
	if rerr == nil {
		for i, e := range es {
			if i > 0 {
				sym.Assert(es[i-1].Name() < e.Name(), "C14|"+label+"|ReadDir-not-sorted")
			}
			li, lerr := v.Lstat(p + "/" + e.Name())
			sym.Assert(lerr == nil && li.Mode().Type() == e.Type(), "C14|"+label+"|ReadDir-entry-type")
		}
	}
}

var _ = os.ErrNotExist
