// Package sym is the harness API. Under the symbolic executor (symgo) every
// function here is intercepted; this file is the native implementation used to
// replay solver models against the natively compiled real code.
package sym

import (
	"fmt"
	"reflect"
	"runtime"
	"strconv"
	"strings"
)

// Run is the state of one native replay.
type Run struct {
	Values map[string]uint64
	counts map[string]int
	Obs    []string
	Fails  []string
	Reach  []string
	Label  string
	Status string // OK, ASSUME, ASSERTFAIL, PANIC, CUT, HANG
	Panic  string
	Site   string
}

var cur *Run

type stop struct{ kind string }

var registry = map[string]reflect.Value{}

// Register makes a harness function callable by name from the native runner.
func Register(name string, f any) { registry[name] = reflect.ValueOf(f) }

// Exec runs a registered harness natively with the given inputs.
func Exec(name string, args []int64, values map[string]uint64) *Run {
	r := &Run{Values: values, counts: map[string]int{}, Status: "OK"}
	f, ok := registry[name]
	if !ok {
		r.Status = "NOHARNESS"
		return r
	}
	cur = r
	func() {
		defer func() {
			if e := recover(); e != nil {
				if s, ok := e.(stop); ok {
					r.Status = s.kind
					return
				}
				r.Status = "PANIC"
				r.Panic = Classify(e)
				r.Site = panicSite()
			}
		}()
		in := make([]reflect.Value, len(args))
		for i, a := range args {
			in[i] = reflect.ValueOf(int(a))
		}
		f.Call(in)
	}()
	return r
}

func (r *Run) next(base string) string {
	k := r.counts[base]
	r.counts[base] = k + 1
	return base + "#" + strconv.Itoa(k)
}

func Int(name string) int       { return int(int64(cur.Values[cur.next(name)])) }
func Int64(name string) int64   { return int64(cur.Values[cur.next(name)]) }
func Uint32(name string) uint32 { return uint32(cur.Values[cur.next(name)]) }
func Byte(name string) byte     { return byte(cur.Values[cur.next(name)]) }
func Bool(name string) bool     { return cur.Values[cur.next(name)] != 0 }

func String(name string, n int) string { return string(Bytes(name, n)) }

func Bytes(name string, n int) []byte {
	nm := cur.next(name)
	b := make([]byte, n)
	for i := range b {
		b[i] = byte(cur.Values[nm+"["+strconv.Itoa(i)+"]"])
	}
	return b
}

func Choose(name string, n int) int {
	v := int(cur.Values[cur.next(name)])
	if v < 0 || v >= n {
		panic(stop{"BADCHOICE"})
	}
	return v
}

func Assume(c bool) {
	if !c {
		panic(stop{"ASSUME"})
	}
}

func Assert(c bool, sig string) {
	if !c {
		cur.Fails = append(cur.Fails, sig)
		panic(stop{"ASSERTFAIL"})
	}
}

func Reach(label string)   { cur.Reach = append(cur.Reach, label) }
func Label(s string)       { cur.Label = s }
func Native() bool         { return true }
func Cut(reason string)    { panic(stop{"CUT"}) }
func Concretize(x int) int { return x }
func Itoa(x int) string    { return strconv.Itoa(x) }

// Observe logs a caller-visible value in the canonical form shared with symgo.
func Observe(label string, v any) { cur.Obs = append(cur.Obs, label+"="+render(reflect.ValueOf(v))) }

func render(v reflect.Value) string {
	if !v.IsValid() {
		return "nil"
	}
	switch v.Kind() {
	case reflect.Int, reflect.Int8, reflect.Int16, reflect.Int32, reflect.Int64:
		return strconv.FormatInt(v.Int(), 10)
	case reflect.Uint, reflect.Uint8, reflect.Uint16, reflect.Uint32, reflect.Uint64, reflect.Uintptr:
		return strconv.FormatUint(v.Uint(), 10)
	case reflect.Bool:
		return strconv.FormatBool(v.Bool())
	case reflect.String:
		return strconv.Quote(v.String())
	case reflect.Slice, reflect.Array:
		var sb strings.Builder
		sb.WriteByte('[')
		for i := 0; i < v.Len(); i++ {
			if i > 0 {
				sb.WriteByte(' ')
			}
			sb.WriteString(render(v.Index(i)))
		}
		sb.WriteByte(']')
		return sb.String()
	case reflect.Struct:
		var sb strings.Builder
		sb.WriteByte('{')
		for i := 0; i < v.NumField(); i++ {
			if i > 0 {
				sb.WriteByte(' ')
			}
			sb.WriteString(render(v.Field(i)))
		}
		sb.WriteByte('}')
		return sb.String()
	case reflect.Interface:
		if v.IsNil() {
			return "nil"
		}
		return render(v.Elem())
	case reflect.Ptr:
		if v.IsNil() {
			return "nilptr"
		}
		return "ptr"
	}
	return "<" + v.Kind().String() + ">"
}

// Result of Outcome.
type Result struct {
	Panicked bool
	Class    string
	Site     string
}

// Outcome runs f and reports whether it panicked (class and innermost avfs function).
func Outcome(f func()) (res Result) {
	defer func() {
		if e := recover(); e != nil {
			if s, ok := e.(stop); ok {
				panic(s)
			}
			res = Result{Panicked: true, Class: Classify(e), Site: panicSite()}
		}
	}()
	f()
	return Result{}
}

// Classify maps a recovered panic value to the class names symgo uses.
func Classify(e any) string {
	re, ok := e.(runtime.Error)
	if !ok {
		return "explicit"
	}
	m := re.Error()
	switch {
	case strings.Contains(m, "index out of range"):
		return "index"
	case strings.Contains(m, "slice bounds out of range"):
		return "slice-bounds"
	case strings.Contains(m, "nil pointer dereference"):
		return "nil-deref"
	case strings.Contains(m, "assignment to entry in nil map"):
		return "nil-map"
	case strings.Contains(m, "interface conversion"):
		return "type-assert"
	case strings.Contains(m, "divide by zero"):
		return "div-zero"
	case strings.Contains(m, "makeslice"), strings.Contains(m, "growslice"):
		return "alloc-size"
	case strings.Contains(m, "negative shift"):
		return "shift"
	}
	return "runtime:" + m
}

// panicSite returns the innermost avfs function on the panicking stack in the
// short form pkg.(*T).M / pkg.F shared with symgo.
func panicSite() string {
	pcs := make([]uintptr, 64)
	n := runtime.Callers(3, pcs)
	frames := runtime.CallersFrames(pcs[:n])
	for {
		fr, more := frames.Next()
		if strings.HasPrefix(fr.Function, "github.com/avfs/avfs") {
			return ShortFunc(fr.Function)
		}
		if !more {
			break
		}
	}
	return ""
}

// ShortFunc normalises a runtime function name: drops the import path prefix,
// generic instantiation brackets and closure suffixes.
func ShortFunc(f string) string {
	if i := strings.LastIndex(f, "/"); i >= 0 {
		f = f[i+1:]
	}
	for {
		i := strings.Index(f, "[")
		if i < 0 {
			break
		}
		j := strings.Index(f[i:], "]")
		if j < 0 {
			break
		}
		f = f[:i] + f[i+j+1:]
	}
	// closures: pkg.F.func1, pkg.(*T).M.func1.2
	if i := strings.Index(f, ".func"); i >= 0 {
		f = f[:i]
	}
	return f
}

var _ = fmt.Sprint
