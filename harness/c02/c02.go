// Package c02: open-file I/O of MemFS/OrefaFS versus posixref's os.File model
// (validated against *os.File on tmpfs in native runs).
package c02

import (
	"io/fs"

	"verif/harness/hx"
	"verif/harness/posix"
	"verif/harness/sym"
	"verif/harness/sysx"
)

func init() {
	sym.Register("c02.HOps", HOps)
	sym.Register("c02.HOpsFixed", HOpsFixed)
	sym.Register("c02.HDirRead", HDirRead)
}

// Handle operations.
var Ops = []string{"Read", "ReadAt", "Write", "WriteAt", "Seek", "Truncate", "Stat", "Sync", "Chmod", "Chown", "Close", "PathTruncate", "PathRename", "PathLink", "PathRemove"}

// NumOps is len(Ops).
const NumOps = 15

type world struct {
	sys   sysx.Sys
	files sysx.FileSys
}

type result struct {
	code  int
	n     int64
	bytes []byte
}

const path = "/w/f"

// one performs operation op with the given arguments in world w on handle h.
type args struct {
	n    int
	off  int64
	wh   int
	size int64
	data []byte
	mode uint32
	uid  int
	gid  int
}

func one(w world, op string, h int, a args) result {
	switch op {
	case "Read":
		b, c := w.files.Read(h, a.n)
		return result{code: c, n: int64(len(b)), bytes: b}
	case "ReadAt":
		b, c := w.files.ReadAt(h, a.n, a.off)
		return result{code: c, n: int64(len(b)), bytes: b}
	case "Write":
		n, c := w.files.Write(h, a.data)
		return result{code: c, n: int64(n)}
	case "WriteAt":
		n, c := w.files.WriteAt(h, a.data, a.off)
		return result{code: c, n: int64(n)}
	case "Seek":
		n, c := w.files.Seek(h, a.off, a.wh)
		return result{code: c, n: n}
	case "Truncate":
		return result{code: w.files.FTruncate(h, a.size)}
	case "Stat":
		st, c := w.files.FStat(h)
		return result{code: c, n: st.Size}
	case "Sync":
		return result{code: w.files.FSync(h)}
	case "Chmod":
		return result{code: w.files.FChmod(h, a.mode)}
	case "Chown":
		return result{code: w.files.FChown(h, a.uid, a.gid)}
	case "Close":
		return result{code: w.files.Close(h)}
	case "PathTruncate":
		return result{code: w.sys.Truncate(path, a.size)}
	case "PathRename":
		return result{code: w.sys.Rename(path, "/w/g")}
	case "PathLink":
		return result{code: w.sys.Link(path, "/w/l")}
	case "PathRemove":
		return result{code: w.sys.Remove(path)}
	}
	return result{}
}

func bytesEq(a, b []byte) bool {
	if len(a) != len(b) {
		return false
	}
	for i := range a {
		if a[i] != b[i] {
			return false
		}
	}
	return true
}

func pickArgs(op string, tag string) args {
	var a args
	switch op {
	case "Read":
		a.n = sym.Choose(tag+"n", 4)
	case "ReadAt":
		a.n = sym.Choose(tag+"n", 4)
		a.off = sym.Int64(tag + "off")
	case "Write":
		a.data = sym.Bytes(tag+"data", sym.Choose(tag+"m", 3))
	case "WriteAt":
		a.data = sym.Bytes(tag+"data", sym.Choose(tag+"m", 3))
		a.off = sym.Int64(tag + "off")
		// growth is bounded: offsets that would make the file longer than 8 bytes are outside the claim
		sym.Assume(a.off <= 6)
	case "Seek":
		a.off = sym.Int64(tag + "off")
		a.wh = sym.Int(tag + "whence")
		// lseek(2) takes whence as a 32-bit value: wider values are outside the claim
		sym.Assume(a.wh >= -2147483648 && a.wh <= 2147483647)
		// SEEK_DATA (3) and SEEK_HOLE (4) are Linux extensions outside io.Seeker: outside the claim
		sym.Assume(a.wh != 3 && a.wh != 4)
	case "Truncate", "PathTruncate":
		a.size = sym.Int64(tag + "size")
		sym.Assume(a.size <= 8)
	case "Chmod":
		a.mode = sym.Uint32(tag+"mode") & 0o7777
	case "Chown":
		a.uid = sym.Int(tag + "uid")
		a.gid = sym.Int(tag + "gid")
		sym.Assume(a.uid >= -1 && a.uid <= 70000 && a.gid >= -1 && a.gid <= 70000)
	}
	return a
}

func flagName(f int) string {
	s := []string{"rdonly", "wronly", "rdwr"}[f&3]
	if f&posix.OAppend != 0 {
		s += "+append"
	}
	if f&posix.OTrunc != 0 {
		s += "+trunc"
	}
	if f&posix.OCreate != 0 {
		s += "+create"
	}
	if f&posix.OExcl != 0 {
		s += "+excl"
	}
	return s
}

// HOps: h handles opened with symbolic flags on one file of len0 symbolic bytes,
// then a history of L handle/path operations; every result and, after every
// step, the content seen through the path and the size seen through every
// handle are compared with the model (and natively with the kernel).
func HOps(kind, len0, nh, L int) { run(kind, len0, nh, L, -1, NumOps) }

// fixedFlags are the open flags used by HOpsFixed (longer histories).
var fixedFlags = []int{posix.ORdwr, posix.ORdwr | posix.OAppend, posix.ORdonly, posix.OWronly | posix.OTrunc, posix.OWronly | posix.OAppend}

// ops2 is the core operation set used by HOpsFixed.
var ops2 = []string{"Seek", "Write", "Truncate", "PathTruncate", "Read", "WriteAt", "PathRemove", "ReadAt"}

// HOpsFixed: histories of L operations from the core operation set on nh handles
// opened with fixed flags (index fi into fixedFlags); nops = how many leading entries of ops2 are used.
func HOpsFixed(kind, len0, nh, L, fi, nops int) { run(kind, len0, nh, L, fi, nops) }

func run(kind, len0, nh, L, fixed, nops int) {
	v := hx.NewBase(kind)
	impl := world{sys: sysx.ImplSys{V: v}, files: &sysx.ImplFiles{V: v}}
	mfs := posix.New()
	model := world{sys: sysx.ModelSys{F: mfs}, files: &sysx.ModelFiles{F: mfs}}
	var kern *world
	var kf *sysx.KernelFiles
	if sym.Native() {
		k := sysx.NewKernel()
		defer k.Done()
		kf = &sysx.KernelFiles{K: k}
		defer kf.CloseAll()
		kern = &world{sys: k, files: kf}
	}
	content := sym.Bytes("content", len0)
	setup := func(w world) {
		if c := w.sys.MkdirAll("/w", 0o755); c != 0 {
			panic("setup")
		}
		if c, c2 := w.sys.OpenWrite(path, 1|0x40|0x200, 0o644, content); c != 0 || c2 != 0 {
			panic("setup")
		}
	}
	setup(impl)
	setup(model)
	if kern != nil {
		setup(*kern)
	}
	fsName := hx.KindName(kind)
	// open the handles
	type hnd struct {
		i, m, k int
		flags   string
	}
	var hs []hnd
	for i := 0; i < nh; i++ {
		var flag int
		if fixed >= 0 {
			flag = fixedFlags[(fixed+i)%len(fixedFlags)]
		} else {
			flag = sym.Int("flag") & (3 | posix.OCreate | posix.OExcl | posix.OTrunc | posix.OAppend)
			sym.Assume(flag&3 != 3)
		}
		sym.Label(fsName + "|open")
		hi, ci := impl.files.Open(path, flag, 0o644)
		hm, cm := model.files.Open(path, flag, 0o644)
		hk := -1
		if kern != nil {
			var ck int
			hk, ck = kern.files.Open(path, flag, 0o644)
			sym.Assert(ck == cm, "ORACLE|open|kernel-"+hx.CodeName(ck)+"|model-"+hx.CodeName(cm))
		}
		sym.Assert(ci == cm, "C02|"+fsName+"|open|errno|got-"+hx.CodeName(ci)+"|want-"+hx.CodeName(cm))
		if ci != 0 || cm != 0 {
			continue
		}
		hs = append(hs, hnd{hi, hm, hk, flagName(flag)})
	}
	if len(hs) == 0 {
		return
	}
	sym.Reach("opened")
	for step := 0; step < L; step++ {
		var op string
		if fixed >= 0 {
			op = ops2[sym.Choose("op", nops)]
		} else {
			op = Ops[sym.Choose("op", NumOps)]
		}
		h := hs[0]
		if len(hs) > 1 {
			h = hs[sym.Choose("h", len(hs))]
		}
		a := pickArgs(op, "")
		if fixed >= 0 {
			// longer histories: offsets and sizes straddle the file size only (the
			// full 64-bit range is covered by the one-step histories)
			sym.Assume(a.off >= -2 && a.off <= 6)
			sym.Assume(a.size >= -1)
			sym.Assume(a.wh >= -1 && a.wh <= 5)
		}
		label := fsName + "|" + op + "|" + h.flags
		sym.Label(label)
		var ri result
		res := sym.Outcome(func() { ri = one(impl, op, h.i, a) })
		sym.Assert(!res.Panicked, "C02|"+label+"|panic|"+res.Class+"|"+res.Site)
		if res.Panicked {
			return
		}
		rm := one(model, op, h.m, a)
		if kern != nil {
			rk := one(*kern, op, h.k, a)
			sym.Assert(rk.code == rm.code && rk.n == rm.n && bytesEq(rk.bytes, rm.bytes), "ORACLE|"+label+"|kernel-"+hx.CodeName(rk.code)+"|model-"+hx.CodeName(rm.code))
		}
		sym.Observe("code", ri.code)
		sym.Assert(ri.code == rm.code, "C02|"+label+"|errno|got-"+hx.CodeName(ri.code)+"|want-"+hx.CodeName(rm.code))
		sym.Assert(ri.n == rm.n, "C02|"+label+"|count-or-offset")
		sym.Assert(bytesEq(ri.bytes, rm.bytes), "C02|"+label+"|bytes")
		// state seen through every handle and through the path(s)
		for _, x := range hs {
			si, ci := impl.files.FStat(x.i)
			sm, cm := model.files.FStat(x.m)
			sym.Assert(ci == cm && si.Size == sm.Size, "C02|"+label+"|then|size-through-handle")
			oi, c1 := impl.files.Seek(x.i, 0, 1)
			om, c2 := model.files.Seek(x.m, 0, 1)
			sym.Assert(c1 == c2 && oi == om, "C02|"+label+"|then|offset-of-handle")
			if kern != nil {
				sk, ck := kern.files.FStat(x.k)
				ok, c3 := kern.files.Seek(x.k, 0, 1)
				sym.Assert(ck == cm && sk.Size == sm.Size && c3 == c2 && ok == om, "ORACLE|"+label+"|then|handle-state")
			}
		}
		for _, p := range []string{path, "/w/g", "/w/l"} {
			bi, ci := impl.sys.ReadFile(p)
			bm, cm := model.sys.ReadFile(p)
			sym.Assert(ci == cm && bytesEq(bi, bm), "C02|"+label+"|then|content-through-path")
			if kern != nil {
				bk, ck := kern.sys.ReadFile(p)
				sym.Assert(ck == cm && bytesEq(bk, bm), "ORACLE|"+label+"|then|content")
			}
		}
	}
	sym.Reach("history-done")
}

// HDirRead: a directory handle delivers, through Readdirnames(n) (mode 0),
// ReadDir(n) (mode 1) or a mix chosen per call (mode 2; the two share one
// position, as in package os), each entry exactly once in batches of at most n
// followed by io.EOF; n <= 0 returns all remaining entries and a nil error.
func HDirRead(kind, entries, calls, mode int) {
	v := hx.NewBase(kind)
	hx.Must(v.MkdirAll("/w/d", 0o755))
	names := []string{"a", "b", "c"}
	for i := 0; i < entries; i++ {
		hx.Must(v.WriteFile("/w/d/"+names[i], nil, 0o644))
	}
	f, err := v.Open("/w/d")
	hx.Must(err)
	sym.Reach("dir-opened")
	seen := map[string]int{}
	total := 0
	for c := 0; c < calls; c++ {
		n := sym.Int("n")
		var got []string
		var rerr error
		m := mode
		if mode == 2 {
			m = sym.Choose("which", 2)
		}
		meth := "Readdirnames"
		if m == 1 {
			meth = "ReadDir"
		}
		if mode == 2 {
			meth = "mixed|" + meth
		}
		sym.Label(hx.KindName(kind) + "|" + meth)
		res := sym.Outcome(func() {
			if m == 0 {
				got, rerr = f.Readdirnames(n)
				return
			}
			var es []fs.DirEntry
			es, rerr = f.ReadDir(n)
			for _, e := range es {
				got = append(got, e.Name())
			}
		})
		sig := "C02|" + hx.KindName(kind) + "|" + meth
		sym.Assert(!res.Panicked, sig+"|panic|"+res.Class+"|"+res.Site)
		code := hx.Code(rerr)
		remaining := entries - total
		for _, g := range got {
			seen[g]++
			sym.Assert(seen[g] == 1, sig+"|entry-delivered-twice")
		}
		total += len(got)
		if n <= 0 {
			sym.Assert(code == 0 && len(got) == remaining, sig+"|n<=0|must-return-all-remaining-with-nil-error")
		} else if remaining == 0 {
			sym.Assert(code == hx.EOF && len(got) == 0, sig+"|at-end|want-EOF|got-"+hx.CodeName(code))
		} else {
			want := remaining
			if n < want {
				want = n
			}
			sym.Assert(code == 0 && len(got) == want, sig+"|batch-size")
		}
		sym.Assert(total <= entries, sig+"|more-entries-than-exist")
	}
}
