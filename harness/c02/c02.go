// Package c02: open-file I/O of MemFS/OrefaFS versus a reference model of os.File.
package c02

import (
	"github.com/avfs/avfs/vfs/memfs"

	"verif/harness/sym"
)

func init() {
	sym.Register("c02.HSeekRead", HSeekRead)
}

func HSeekRead() {
	vfs := memfs.New()
	_ = vfs.WriteFile("/tmp/f", []byte("abc"), 0o644)
	flag := sym.Int("flag") & 0xC43
	f, err := vfs.OpenFile("/tmp/f", flag, 0)
	if err != nil {
		return
	}
	off := sym.Int64("off")
	wh := sym.Int("whence")
	sym.Reach("opened")
	var n int
	res := sym.Outcome(func() {
		_, _ = f.Seek(off, wh)
		b := make([]byte, 2)
		n, _ = f.Read(b)
	})
	sym.Observe("n", n)
	sym.Assert(!res.Panicked, "C07|memfs|File.Read|panic|"+res.Class+"|"+res.Site)
}
