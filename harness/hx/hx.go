// Package hx holds helpers shared by the harnesses: file-system constructors,
// seed trees, error → errno-code mapping and whole-tree snapshots taken through
// the public API only.
package hx

import (
	"errors"
	"io"
	"io/fs"
	"os"
	"strconv"
	"time"

	"github.com/avfs/avfs"
	"github.com/avfs/avfs/vfs/basepathfs"
	"github.com/avfs/avfs/vfs/failfs"
	"github.com/avfs/avfs/vfs/memfs"
	"github.com/avfs/avfs/vfs/orefafs"
	"github.com/avfs/avfs/vfs/rofs"
)

// File-system kinds.
const (
	KMem = iota
	KOrefa
	KRo       // RoFS over MemFS
	KBasePath // BasePathFS over MemFS rooted at /w
	KFail     // FailFS over MemFS, no failure function
)

func KindName(k int) string {
	switch k {
	case KMem:
		return "memfs"
	case KOrefa:
		return "orefafs"
	case KRo:
		return "rofs"
	case KBasePath:
		return "basepathfs"
	case KFail:
		return "failfs"
	}
	return "fs" + strconv.Itoa(k)
}

// NewBase returns a fresh emulated file system (MemFS or OrefaFS).
func NewBase(kind int) avfs.VFS {
	if kind == KOrefa {
		return orefafs.New()
	}
	return memfs.New()
}

// Errno-like codes shared by implementation, model and kernel observations.
const (
	OK          = 0
	EPERM       = 1
	ENOENT      = 2
	EBADF       = 9
	EACCES      = 13
	EEXIST      = 17
	EXDEV       = 18
	ENOTDIR     = 20
	EISDIR      = 21
	EINVAL      = 22
	EFBIG       = 27
	ENOTEMPTY   = 39
	ELOOP       = 40
	EOVERFLOW   = 75
	EOF         = 1001
	ErrClosed   = 1002
	ErrNegOff   = 1003
	ErrInvalid  = 1004
	ErrAppendAt = 1005
	ErrPattern  = 1006
	ErrOther    = 1999
)

// Code maps an error returned by an avfs file system (Linux emulation) to a code.
func Code(err error) int {
	if err == nil {
		return OK
	}
	for i := 0; i < 4; i++ {
		switch e := err.(type) {
		case *fs.PathError:
			err = e.Err
			continue
		case *os.LinkError:
			err = e.Err
			continue
		}
		break
	}
	switch err {
	case io.EOF:
		return EOF
	case fs.ErrClosed:
		return ErrClosed
	case fs.ErrInvalid:
		return ErrInvalid
	case avfs.ErrNegativeOffset:
		return ErrNegOff
	case avfs.ErrFileClosing:
		return ErrClosed
	}
	if le, ok := err.(avfs.LinuxError); ok {
		return int(le)
	}
	return ErrOther
}

// CodeName renders a code for signatures.
func CodeName(c int) string {
	switch c {
	case OK:
		return "ok"
	case 6:
		return "ENXIO"
	case EPERM:
		return "EPERM"
	case ENOENT:
		return "ENOENT"
	case EBADF:
		return "EBADF"
	case EACCES:
		return "EACCES"
	case EEXIST:
		return "EEXIST"
	case EXDEV:
		return "EXDEV"
	case ENOTDIR:
		return "ENOTDIR"
	case EISDIR:
		return "EISDIR"
	case EINVAL:
		return "EINVAL"
	case EFBIG:
		return "EFBIG"
	case ENOTEMPTY:
		return "ENOTEMPTY"
	case ELOOP:
		return "ELOOP"
	case EOVERFLOW:
		return "EOVERFLOW"
	case EOF:
		return "EOF"
	case ErrClosed:
		return "ErrClosed"
	case ErrNegOff:
		return "ErrNegativeOffset"
	case ErrInvalid:
		return "ErrInvalid"
	case ErrAppendAt:
		return "ErrWriteAtInAppendMode"
	case ErrPattern:
		return "ErrBadPattern"
	}
	return "E" + strconv.Itoa(c)
}

// Must panics on a seed-construction error (a harness bug, never a finding).
func Must(err error) {
	if err != nil {
		panic("seed construction failed: " + err.Error())
	}
}

// Seed builds seed tree s under /w through the public API.
//
//	0: /w
//	1: /w/a/ , /w/a/a = "x", /w/b = "yy"
//	2: /w/a/ , /w/a/b/ , /w/a/a = "x", /w/b hard link of /w/a/a
//	3: /w/a/ , /w/a/a = "x", /w/b -> "a", /w/c -> "nope"   (symlink-capable only)
func Seed(v avfs.VFS, s int) {
	Must(v.MkdirAll("/w", 0o755))
	if s == 0 {
		return
	}
	Must(v.Mkdir("/w/a", 0o755))
	Must(v.WriteFile("/w/a/a", []byte("x"), 0o644))
	switch s {
	case 1:
		Must(v.WriteFile("/w/b", []byte("yy"), 0o644))
	case 2:
		Must(v.Mkdir("/w/a/b", 0o755))
		Must(v.Link("/w/a/a", "/w/b"))
	case 3:
		Must(v.Symlink("a", "/w/b"))
		Must(v.Symlink("nope", "/w/c"))
	}
}

// Wrap returns the file system of the given kind over a seeded MemFS base
// together with the base (for snapshots around wrapper calls).
func Wrap(kind, seed int) (v avfs.VFS, base avfs.VFS) {
	switch kind {
	case KMem, KOrefa:
		b := NewBase(kind)
		Seed(b, seed)
		return b, b
	case KRo:
		b := memfs.New()
		Seed(b, seed)
		return rofs.New(b), b
	case KBasePath:
		b := memfs.New()
		Seed(b, seed)
		return basepathfs.New(b, "/w"), b
	case KFail:
		b := memfs.New()
		Seed(b, seed)
		return failfs.New(b), b
	}
	panic("unknown kind")
}

var _ = errors.New

// Snapshot renders the subtree at root as a canonical string, using only
// Lstat / ReadDir / ReadFile / Readlink / ToSysStat. maxNodes bounds the walk
// (a cyclic or endless tree is reported as "...LOOP").
func Snapshot(v avfs.VFS, root string, withTimes bool) string {
	n := 0
	return snap(v, root, withTimes, &n)
}

func snap(v avfs.VFS, p string, withTimes bool, n *int) string {
	*n++
	if *n > 40 {
		return "...LOOP"
	}
	fi, err := v.Lstat(p)
	if err != nil {
		return p + ":!" + CodeName(Code(err)) + ";"
	}
	m := fi.Mode()
	out := p + ":"
	st := v.ToSysStat(fi)
	// fixed-width octal keeps symbolic owners, modes and times symbolic (no
	// concretisation of the value while rendering)
	own := Oct(uint64(st.Uid()), 22) + "." + Oct(uint64(st.Gid()), 22)
	perm := Oct(uint64(m&(fs.ModePerm|fs.ModeSetuid|fs.ModeSetgid|fs.ModeSticky)), 11)
	tm := ""
	if withTimes {
		tm = "@" + Oct(uint64(fi.ModTime().UnixNano()), 22)
	}
	switch {
	case m&fs.ModeSymlink != 0:
		t, err := v.Readlink(p)
		if err != nil {
			t = "!" + CodeName(Code(err))
		}
		return out + "L" + own + ">" + t + ";"
	case m.IsDir():
		out += "D" + perm + "," + own + tm + "{"
		es, err := v.ReadDir(p)
		if err != nil {
			return out + "!" + CodeName(Code(err)) + "};"
		}
		for _, e := range es {
			c := p + "/" + e.Name()
			if p == "/" {
				c = "/" + e.Name()
			}
			out += snap(v, c, withTimes, n)
		}
		return out + "};"
	default:
		b, err := v.ReadFile(p)
		content := string(b)
		if err != nil {
			content = "!" + CodeName(Code(err))
		}
		return out + "F" + perm + "," + own + ",n" + strconv.FormatUint(st.Nlink(), 10) + ",s" + strconv.FormatInt(fi.Size(), 10) + tm + "=" + strconv.Itoa(len(content)) + ":" + content + ";"
	}
}

// Oct renders x as exactly digits octal digits.
func Oct(x uint64, digits int) string {
	b := make([]byte, digits)
	for i := digits - 1; i >= 0; i-- {
		b[i] = '0' + byte(x&7)
		x >>= 3
	}
	return string(b)
}

// WrapOver wraps an existing base in the wrapper of the given kind.
func WrapOver(kind int, b avfs.VFS) avfs.VFS {
	switch kind {
	case KRo:
		return rofs.New(b)
	case KBasePath:
		return basepathfs.New(b, "/w")
	case KFail:
		return failfs.New(b)
	}
	return b
}

// ---- shared call tables for the wrapper harnesses (C09, C12) ----

// Mutators are the VFS methods that change the file system.
var Mutators = []string{"Chmod", "Chown", "Chtimes", "Create", "CreateTemp", "Lchown", "Link", "Mkdir", "MkdirAll", "MkdirTemp", "OpenFile", "Remove", "RemoveAll", "Rename", "Symlink", "Truncate", "WriteFile"}

// NumMutators is len(Mutators).
const NumMutators = 17

// Scalars carries the (symbolic) scalar arguments of one call.
type Scalars struct {
	Mode, Perm fs.FileMode
	Uid, Gid   int
	Sec, Size  int64
	Flag       int
	Data       []byte
}

// Mutate calls mutating method name on v. p is the main operand, q a fresh name.
func Mutate(v avfs.VFS, name, p, q string, s Scalars) (f avfs.File, err error) {
	switch name {
	case "Chmod":
		err = v.Chmod(p, s.Mode)
	case "Chown":
		err = v.Chown(p, s.Uid, s.Gid)
	case "Chtimes":
		err = v.Chtimes(p, time.Unix(1, 0), time.Unix(s.Sec, 0))
	case "Create":
		f, err = v.Create(p)
	case "CreateTemp":
		f, err = v.CreateTemp(p, "t*")
	case "Lchown":
		err = v.Lchown(p, s.Uid, s.Gid)
	case "Link":
		err = v.Link(p, q)
	case "Mkdir":
		err = v.Mkdir(q, s.Perm)
	case "MkdirAll":
		err = v.MkdirAll(q+"/x", s.Perm)
	case "MkdirTemp":
		_, err = v.MkdirTemp(p, "d*")
	case "OpenFile":
		f, err = v.OpenFile(p, s.Flag, s.Perm)
	case "Remove":
		err = v.Remove(p)
	case "RemoveAll":
		err = v.RemoveAll(p)
	case "Rename":
		err = v.Rename(p, q)
	case "Symlink":
		err = v.Symlink(p, q)
	case "Truncate":
		err = v.Truncate(p, s.Size)
	case "WriteFile":
		err = v.WriteFile(p, s.Data, s.Perm)
	}
	return f, err
}

// WriteThrough tries every writing method on a handle and closes it.
func WriteThrough(f avfs.File) {
	_, _ = f.Write([]byte("Z"))
	_, _ = f.WriteAt([]byte("Z"), 0)
	_, _ = f.WriteString("Z")
	_ = f.Truncate(0)
	_ = f.Chmod(0)
	_ = f.Chown(7, 7)
	_ = f.Sync()
	_ = f.Close()
}

// Readers are read-only calls whose result is rendered as text by Render.
var Readers = []string{"Stat", "Lstat", "ReadDir", "ReadFile", "Readlink", "EvalSymlinks", "Glob", "OpenRead", "OpenReadDir", "WalkDir"}

// NumReaders is len(Readers).
const NumReaders = 10

func fiString(fi fs.FileInfo) string {
	return fi.Name() + "," + strconv.FormatInt(fi.Size(), 10) + "," + strconv.FormatUint(uint64(fi.Mode()), 8)
}

// Render performs read-only call name on p and renders everything it returned.
func Render(v avfs.VFS, name, p string) string {
	switch name {
	case "Stat":
		fi, err := v.Stat(p)
		if err != nil {
			return CodeName(Code(err))
		}
		return fiString(fi)
	case "Lstat":
		fi, err := v.Lstat(p)
		if err != nil {
			return CodeName(Code(err))
		}
		return fiString(fi)
	case "ReadDir":
		es, err := v.ReadDir(p)
		out := CodeName(Code(err))
		for _, e := range es {
			out += "," + e.Name()
		}
		return out
	case "ReadFile":
		b, err := v.ReadFile(p)
		return CodeName(Code(err)) + ":" + string(b)
	case "Readlink":
		t, err := v.Readlink(p)
		return CodeName(Code(err)) + ":" + t
	case "EvalSymlinks":
		t, err := v.EvalSymlinks(p)
		return CodeName(Code(err)) + ":" + t
	case "Glob":
		ms, err := v.Glob(p + "/*")
		out := CodeName(Code(err))
		for _, m := range ms {
			out += "," + m
		}
		return out
	case "OpenRead":
		f, err := v.Open(p)
		if err != nil {
			return CodeName(Code(err))
		}
		b := make([]byte, 2)
		n, rerr := f.Read(b)
		off, _ := f.Seek(0, 1)
		st := ""
		if fi, serr := f.Stat(); serr == nil {
			st = fiString(fi)
		}
		_ = f.Close()
		return strconv.Itoa(n) + "," + CodeName(Code(rerr)) + "," + string(b[:n]) + "," + strconv.FormatInt(off, 10) + "," + st
	case "OpenReadDir":
		f, err := v.Open(p)
		if err != nil {
			return CodeName(Code(err))
		}
		ns, rerr := f.Readdirnames(-1)
		_ = f.Close()
		out := CodeName(Code(rerr))
		for _, n := range ns {
			out += "," + n
		}
		return out
	case "WalkDir":
		out := ""
		err := v.WalkDir(p, func(path string, d fs.DirEntry, err error) error {
			out += path + ";"
			return nil
		})
		return CodeName(Code(err)) + ":" + out
	}
	return ""
}

// Itoa is strconv.Itoa (kept here so that harnesses need not import strconv).
func Itoa(i int) string { return strconv.Itoa(i) }

// NewBareMemFS returns a MemFS whose root holds only /w (no /home, /root, /tmp),
// so that listings of the root are comparable with the reference worlds.
func NewBareMemFS() avfs.VFS {
	return memfs.NewWithOptions(&memfs.Options{SystemDirs: []avfs.DirInfo{{Path: "/w", Perm: 0o755}}})
}
