// Command native replays solver models against the natively compiled harnesses
// (and therefore the real avfs code). Input: JSON lines on stdin, output: JSON
// lines on stdout. A hanging harness is reported as HANG and ends the process
// with status 3 (the driver restarts it for the remaining records).
package main

import (
	"bufio"
	"encoding/json"
	"os"
	"syscall"
	"time"

	"verif/harness/sym"

	_ "verif/harness/all"
	_ "verif/harness/alltag"
)

type rec struct {
	ID     int               `json:"id"`
	Func   string            `json:"func"`
	Args   []int64           `json:"args"`
	Values map[string]uint64 `json:"values"`
}

type out struct {
	ID     int      `json:"id"`
	Status string   `json:"status"`
	Panic  string   `json:"panic,omitempty"`
	Site   string   `json:"site,omitempty"`
	Label  string   `json:"label,omitempty"`
	Obs    []string `json:"obs,omitempty"`
	Fails  []string `json:"fails,omitempty"`
	Reach  []string `json:"reach,omitempty"`
}

func main() {
	syscall.Umask(0o022)
	sc := bufio.NewScanner(os.Stdin)
	sc.Buffer(make([]byte, 1<<20), 1<<26)
	w := bufio.NewWriter(os.Stdout)
	defer w.Flush()
	enc := json.NewEncoder(w)
	for sc.Scan() {
		var r rec
		if err := json.Unmarshal(sc.Bytes(), &r); err != nil {
			continue
		}
		done := make(chan *sym.Run, 1)
		go func() { done <- sym.Exec(r.Func, r.Args, r.Values) }()
		select {
		case run := <-done:
			enc.Encode(out{ID: r.ID, Status: run.Status, Panic: run.Panic, Site: run.Site, Label: run.Label, Obs: run.Obs, Fails: run.Fails, Reach: run.Reach})
		case <-time.After(1500 * time.Millisecond):
			enc.Encode(out{ID: r.ID, Status: "HANG"})
			w.Flush()
			os.Exit(3)
		}
	}
}
