// Package c09: nothing done through a RoFS, a File it returns or a file system
// obtained from it (Sub) changes the underlying file system; mutating calls fail
// with a permission-class error; read-only calls return what the base returns.
package c09

import (
	"errors"
	"io/fs"
	"strconv"
	"time"

	"github.com/avfs/avfs"
	"github.com/avfs/avfs/vfs/rofs"

	"verif/harness/hx"
	"verif/harness/sym"
)

func init() {
	sym.Register("c09.HMutate", HMutate)
	sym.Register("c09.HFile", HFile)
	sym.Register("c09.HRead", HRead)
}

var operands = []string{"/w/a/a", "/w/a", "/w/c", "/w/b", "/w", "/", "a/a", "a", "c", "..", "./a/../b", ""}
var operandKinds = []string{"file", "dir", "missing", "file2", "scratch", "root", "rel-file", "rel-dir", "rel-missing", "rel-dotdot", "rel-unclean", "empty"}

// NumOperands is len(operands); the first NumAbsOperands are absolute, the
// others are relative and are used after Chdir("/w") through the view.
const NumOperands = 12

// NumAbsOperands is the number of absolute operands.
const NumAbsOperands = 6

var mutators = []string{"Chmod", "Chown", "Chtimes", "Create", "CreateTemp", "Lchown", "Link", "Mkdir", "MkdirAll", "MkdirTemp", "OpenFile", "Remove", "RemoveAll", "Rename", "Symlink", "Truncate", "WriteFile"}

// NumMutators is len(mutators).
const NumMutators = 17

func permClass(err error) bool {
	return err != nil && errors.Is(err, fs.ErrPermission)
}

// subDirs are the directories given to Sub (via-1 indexes it): a plain
// directory, the root itself, an unclean spelling and a relative spelling.
var subDirs = []string{"/w", "/", "/w/a/..", ".", "/w/a"}

// NumVia is 1 + len(subDirs): via==0 is the RoFS itself.
const NumVia = 6

// view returns the file system under test: the RoFS itself (via==0), or the
// file system obtained from it with Sub(subDirs[via-1]); operands are re-rooted.
func view(ro avfs.VFS, via int) (avfs.VFS, func(string) string) {
	if via == 0 {
		return ro, func(p string) string { return p }
	}
	dir := subDirs[via-1]
	s, err := ro.Sub(dir)
	if err != nil {
		sym.Cut("Sub not available")
	}
	root := "/w"
	switch dir {
	case "/", ".":
		return s, func(p string) string { return p }
	case "/w/a":
		root = "/w/a"
	}
	return s, func(p string) string {
		if len(p) >= len(root) && p[:len(root)] == root && (len(p) == len(root) || p[len(root)] == '/') {
			if len(p) == len(root) {
				return "/"
			}
			return p[len(root):]
		}
		return "/nonexistent" + p
	}
}

// HMutate: mutating VFS method m through a RoFS over a base of the given kind
// (seed tree 1..3), directly or through Sub: the base snapshot (tree, bytes,
// modes, owners, modification times) is unchanged and the error is permission-class.
func HMutate(kind, seed, via, m int) {
	base := hx.NewBase(kind)
	if seed == 3 && !base.HasFeature(avfs.FeatSymlink) {
		return
	}
	if via >= 1 && !base.HasFeature(avfs.FeatSubFS) {
		return
	}
	hx.Seed(base, seed)
	ro := rofs.New(base)
	v, tr := view(ro, via)
	name := mutators[m]
	pi := sym.Choose("p", NumOperands)
	p := operands[pi]
	q := tr("/w/new")
	if pi < NumAbsOperands {
		p = tr(p)
	} else {
		// relative operand: the working directory is set through the view first
		_ = v.Chdir(tr("/w"))
		if sym.Bool("relq") {
			q = "new"
		}
	}
	label := hx.KindName(kind) + "|" + name + "|" + operandKinds[pi]
	if via >= 1 {
		label += "|via-Sub(" + subDirs[via-1] + ")"
	}
	sym.Label(label)
	before := hx.Snapshot(base, "/", true)
	sym.Reach("mutator")
	var err error
	var f avfs.File
	isOpenRO := false
	res := sym.Outcome(func() {
		switch name {
		case "Chmod":
			err = v.Chmod(p, fs.FileMode(sym.Uint32("mode")))
		case "Chown":
			err = v.Chown(p, sym.Int("uid"), sym.Int("gid"))
		case "Chtimes":
			err = v.Chtimes(p, time.Unix(1, 0), time.Unix(sym.Int64("sec"), 0))
		case "Create":
			f, err = v.Create(p)
		case "CreateTemp":
			f, err = v.CreateTemp(p, "t*")
		case "Lchown":
			err = v.Lchown(p, sym.Int("uid"), sym.Int("gid"))
		case "Link":
			err = v.Link(p, q)
		case "Mkdir":
			err = v.Mkdir(q, fs.FileMode(sym.Uint32("perm")))
		case "MkdirAll":
			err = v.MkdirAll(q+"/x", fs.FileMode(sym.Uint32("perm")))
		case "MkdirTemp":
			_, err = v.MkdirTemp(p, "d*")
		case "OpenFile":
			flag := sym.Int("flag")
			isOpenRO = flag == 0
			f, err = v.OpenFile(p, flag, fs.FileMode(sym.Uint32("perm")))
		case "Remove":
			err = v.Remove(p)
		case "RemoveAll":
			err = v.RemoveAll(p)
		case "Rename":
			err = v.Rename(p, q)
		case "Symlink":
			err = v.Symlink(p, q)
		case "Truncate":
			err = v.Truncate(p, sym.Int64("size"))
		case "WriteFile":
			err = v.WriteFile(p, sym.Bytes("data", 2), fs.FileMode(sym.Uint32("perm")))
		}
		if f != nil && err == nil {
			// whatever came back: writing through it must not reach the base
			_, _ = f.Write([]byte("Z"))
			_, _ = f.WriteAt([]byte("Z"), 0)
			_, _ = f.WriteString("Z")
			_ = f.Truncate(0)
			_ = f.Chmod(0)
			_ = f.Chown(7, 7)
			_ = f.Sync()
			_ = f.Close()
		}
	})
	sym.Assert(!res.Panicked, "C09|"+label+"|panic|"+res.Class+"|"+res.Site)
	after := hx.Snapshot(base, "/", true)
	sym.Observe("err", hx.Code(err))
	sym.Assert(before == after, "C09|"+label+"|base-changed")
	if !isOpenRO {
		sym.Assert(permClass(err), "C09|"+label+"|not-a-permission-error|"+hx.CodeName(hx.Code(err)))
	}
}

var fileMutators = []string{"Write", "WriteAt", "WriteString", "Truncate", "Chmod", "Chown", "Sync"}

// NumFileMutators is len(fileMutators).
const NumFileMutators = 7

// HFile: handle methods after Open through the RoFS (file and directory handles).
func HFile(kind, seed, via, m int) {
	base := hx.NewBase(kind)
	if via >= 1 && !base.HasFeature(avfs.FeatSubFS) {
		return
	}
	if seed == 3 && !base.HasFeature(avfs.FeatSymlink) {
		return
	}
	hx.Seed(base, seed)
	ro := rofs.New(base)
	v, tr := view(ro, via)
	name := fileMutators[m]
	pi := sym.Choose("p", 2) // file or directory
	p := tr(operands[pi])
	label := hx.KindName(kind) + "|File." + name + "|" + operandKinds[pi]
	if via >= 1 {
		label += "|via-Sub(" + subDirs[via-1] + ")"
	}
	sym.Label(label)
	f, oerr := v.Open(p)
	if oerr != nil {
		sym.Cut("open failed")
	}
	before := hx.Snapshot(base, "/", true)
	sym.Reach("file-mutator")
	var err error
	res := sym.Outcome(func() {
		switch name {
		case "Write":
			_, err = f.Write(sym.Bytes("data", 1))
		case "WriteAt":
			_, err = f.WriteAt(sym.Bytes("data", 1), sym.Int64("off"))
		case "WriteString":
			_, err = f.WriteString(sym.String("s", 1))
		case "Truncate":
			err = f.Truncate(sym.Int64("size"))
		case "Chmod":
			err = f.Chmod(fs.FileMode(sym.Uint32("mode")))
		case "Chown":
			err = f.Chown(sym.Int("uid"), sym.Int("gid"))
		case "Sync":
			err = f.Sync()
		}
	})
	sym.Assert(!res.Panicked, "C09|"+label+"|panic|"+res.Class+"|"+res.Site)
	after := hx.Snapshot(base, "/", true)
	sym.Observe("err", hx.Code(err))
	sym.Assert(before == after, "C09|"+label+"|base-changed")
	sym.Assert(permClass(err), "C09|"+label+"|not-a-permission-error|"+hx.CodeName(hx.Code(err)))
}

var readers = []string{"Stat", "Lstat", "ReadDir", "ReadFile", "Readlink", "EvalSymlinks", "Glob", "OpenRead", "OpenReadDir", "WalkDir"}

// NumReaders is len(readers).
const NumReaders = 10

func render(v avfs.VFS, name, p string) string {
	switch name {
	case "Stat":
		fi, err := v.Stat(p)
		if err != nil {
			return hx.CodeName(hx.Code(err))
		}
		return fi.Name() + "," + strconv.FormatInt(fi.Size(), 10) + "," + strconv.FormatUint(uint64(fi.Mode()), 8)
	case "Lstat":
		fi, err := v.Lstat(p)
		if err != nil {
			return hx.CodeName(hx.Code(err))
		}
		return fi.Name() + "," + strconv.FormatInt(fi.Size(), 10) + "," + strconv.FormatUint(uint64(fi.Mode()), 8)
	case "ReadDir":
		es, err := v.ReadDir(p)
		out := hx.CodeName(hx.Code(err))
		for _, e := range es {
			out += "," + e.Name()
		}
		return out
	case "ReadFile":
		b, err := v.ReadFile(p)
		return hx.CodeName(hx.Code(err)) + ":" + string(b)
	case "Readlink":
		t, err := v.Readlink(p)
		return hx.CodeName(hx.Code(err)) + ":" + t
	case "EvalSymlinks":
		t, err := v.EvalSymlinks(p)
		return hx.CodeName(hx.Code(err)) + ":" + t
	case "Glob":
		ms, err := v.Glob(p + "/*")
		out := hx.CodeName(hx.Code(err))
		for _, m := range ms {
			out += "," + m
		}
		return out
	case "OpenRead":
		f, err := v.Open(p)
		if err != nil {
			return hx.CodeName(hx.Code(err))
		}
		b := make([]byte, 2)
		n, rerr := f.Read(b)
		off, _ := f.Seek(0, 1)
		_ = f.Close()
		return strconv.Itoa(n) + "," + hx.CodeName(hx.Code(rerr)) + "," + string(b[:n]) + "," + strconv.FormatInt(off, 10)
	case "OpenReadDir":
		f, err := v.Open(p)
		if err != nil {
			return hx.CodeName(hx.Code(err))
		}
		ns, rerr := f.Readdirnames(-1)
		_ = f.Close()
		out := hx.CodeName(hx.Code(rerr))
		for _, n := range ns {
			out += "," + n
		}
		return out
	case "WalkDir":
		out := ""
		err := v.WalkDir(p, func(path string, d fs.DirEntry, err error) error {
			out += path + ";"
			return nil
		})
		return hx.CodeName(hx.Code(err)) + ":" + out
	}
	return ""
}

// HRead: read-only calls through the RoFS return what the base returns and leave it unchanged.
func HRead(kind, seed, m int) {
	base := hx.NewBase(kind)
	if seed == 3 && !base.HasFeature(avfs.FeatSymlink) {
		return
	}
	hx.Seed(base, seed)
	ro := rofs.New(base)
	name := readers[m]
	pi := sym.Choose("p", NumAbsOperands)
	p := operands[pi]
	label := hx.KindName(kind) + "|" + name + "|" + operandKinds[pi]
	sym.Label(label)
	sym.Reach("reader")
	before := hx.Snapshot(base, "/", true)
	want := render(base, name, p)
	mid := hx.Snapshot(base, "/", true)
	var got string
	res := sym.Outcome(func() { got = render(ro, name, p) })
	sym.Assert(!res.Panicked, "C09|"+label+"|panic|"+res.Class+"|"+res.Site)
	after := hx.Snapshot(base, "/", true)
	sym.Observe("got", got)
	sym.Assert(before == mid && mid == after, "C09|"+label+"|base-changed")
	sym.Assert(got == want, "C09|"+label+"|differs-from-base")
}
