// Package posix is posixref: a small executable reference model of "package os
// on Linux" (inodes, directories, hard and symbolic links, the kernel's path
// walk, discretionary access control, os-level call semantics). It is plain Go
// (slices and integers, no maps) so that the symbolic executor can run it in
// the same run as the implementation; natively its answers are compared with the
// real kernel on every witness (see kernel.go).
package posix

// errno values (Linux) and os-level pseudo errors, shared with hx codes.
const (
	OK        = 0
	EPERM     = 1
	ENOENT    = 2
	ENXIO     = 6
	EBADF     = 9
	EACCES    = 13
	EBUSY     = 16
	EEXIST    = 17
	EXDEV     = 18
	ENOTDIR   = 20
	EISDIR    = 21
	EINVAL    = 22
	EFBIG     = 27
	ENOTEMPTY = 39
	ELOOP     = 40
)

const (
	KFile = 0
	KDir  = 1
	KLink = 2
)

// Open flags (Linux values, as in package os).
const (
	ORdonly = 0
	OWronly = 1
	ORdwr   = 2
	OCreate = 0x40
	OExcl   = 0x80
	OTrunc  = 0x200
	OAppend = 0x400
)

type Dirent struct {
	Name string
	Ino  int
}

type Inode struct {
	Kind   int
	Mode   uint32 // permission bits (0o7777)
	Uid    int
	Gid    int
	Nlink  int
	Data   []byte
	Target string
	Ents   []Dirent
	Parent int // directories: inode of the parent (".." target)
	Mtime  int // logical modification stamp (changes are compared, not values)
}

type FS struct {
	Nodes []*Inode
	Root  int
	Cwd   int
	Umask uint32
	Uid   int // caller identity
	Gid   int
	Clock int
	// ProtectedHardlinks mirrors /proc/sys/fs/protected_hardlinks (1 on this kernel and by default).
	ProtectedHardlinks bool
}

func New() *FS {
	f := &FS{Umask: 0o022, ProtectedHardlinks: true}
	f.Nodes = append(f.Nodes, &Inode{Kind: KDir, Mode: 0o755, Nlink: 2, Parent: 0})
	return f
}

func (f *FS) tick() int { f.Clock++; return f.Clock }

func (f *FS) alloc(n *Inode) int {
	n.Mtime = f.tick()
	f.Nodes = append(f.Nodes, n)
	return len(f.Nodes) - 1
}

func (f *FS) lookup(dir int, name string) int {
	d := f.Nodes[dir]
	for i := range d.Ents {
		if d.Ents[i].Name == name {
			return d.Ents[i].Ino
		}
	}
	return -1
}

func (f *FS) addEnt(dir int, name string, ino int) {
	d := f.Nodes[dir]
	d.Ents = append(d.Ents, Dirent{name, ino})
	d.Mtime = f.tick()
}

func (f *FS) delEnt(dir int, name string) {
	d := f.Nodes[dir]
	for i := range d.Ents {
		if d.Ents[i].Name == name {
			d.Ents = append(d.Ents[:i:i], d.Ents[i+1:]...)
			break
		}
	}
	d.Mtime = f.tick()
}

// Access bits.
const (
	MayR = 4
	MayW = 2
	MayX = 1
)

// Permit is the kernel's generic permission check (no ACLs, no capabilities but root).
func (f *FS) Permit(ino int, want uint32) bool {
	n := f.Nodes[ino]
	if f.Uid == 0 {
		// CAP_DAC_OVERRIDE: everything except executing a file with no x bit at all
		if want&MayX != 0 && n.Kind == KFile && n.Mode&0o111 == 0 {
			return false
		}
		return true
	}
	m := n.Mode
	switch {
	case n.Uid == f.Uid:
		m >>= 6
	case n.Gid == f.Gid:
		m >>= 3
	}
	return m&want == want
}

func split(path string) (comps []string, trailing bool) {
	start := 0
	for i := 0; i <= len(path); i++ {
		if i == len(path) || path[i] == '/' {
			if i > start {
				comps = append(comps, path[start:i])
			}
			start = i + 1
		}
	}
	trailing = len(path) > 0 && path[len(path)-1] == '/'
	return
}

// Walk result.
type Res struct {
	Parent int    // directory in which the last component was looked up
	Name   string // last component ("" for the root itself / "." / "..")
	Ino    int    // resolved inode or -1
	Err    int
}

// walk resolves path as the kernel does. followLast: follow a symlink in last
// position. create: the caller may create the last component (a trailing slash
// is then handled by the caller).
func (f *FS) walk(path string, followLast bool) Res {
	if path == "" {
		return Res{Ino: -1, Err: ENOENT}
	}
	cur := f.Cwd
	if path[0] == '/' {
		cur = f.Root
	}
	comps, trailing := split(path)
	links := 0
	res := Res{Parent: cur, Ino: cur}
	for i := 0; i < len(comps); i++ {
		c := comps[i]
		last := i == len(comps)-1
		d := f.Nodes[cur]
		if d.Kind != KDir {
			return Res{Ino: -1, Err: ENOTDIR}
		}
		if !f.Permit(cur, MayX) {
			return Res{Ino: -1, Err: EACCES}
		}
		if c == "." {
			res = Res{Parent: cur, Ino: cur}
			continue
		}
		if c == ".." {
			cur = d.Parent
			res = Res{Parent: cur, Ino: cur}
			continue
		}
		ino := f.lookup(cur, c)
		if ino < 0 {
			if last {
				return Res{Parent: cur, Name: c, Ino: -1, Err: ENOENT}
			}
			return Res{Ino: -1, Err: ENOENT}
		}
		n := f.Nodes[ino]
		if n.Kind == KLink && (!last || followLast || trailing) {
			links++
			if links > 40 {
				return Res{Ino: -1, Err: ELOOP}
			}
			if n.Target == "" {
				return Res{Ino: -1, Err: ENOENT}
			}
			tc, ttrail := split(n.Target)
			if n.Target[0] == '/' {
				cur = f.Root
			}
			// splice: target components, then the rest
			rest := append([]string{}, comps[i+1:]...)
			comps = append(append(comps[:i:i], tc...), rest...)
			if last && ttrail {
				trailing = true
			}
			if len(tc) == 0 { // target is "/" (or only slashes)
				res = Res{Parent: cur, Ino: cur}
			}
			i--
			continue
		}
		res = Res{Parent: cur, Name: c, Ino: ino}
		if !last {
			cur = ino
		}
	}
	if res.Ino >= 0 && trailing && f.Nodes[res.Ino].Kind != KDir {
		return Res{Parent: res.Parent, Name: res.Name, Ino: -1, Err: ENOTDIR}
	}
	return res
}

// ---- os-level calls ----

type Stat struct {
	Kind  int
	Mode  uint32
	Uid   int
	Gid   int
	Nlink int
	Size  int64
	Mtime int
	Ino   int
}

func (f *FS) statOf(ino int) Stat {
	n := f.Nodes[ino]
	s := Stat{Kind: n.Kind, Mode: n.Mode, Uid: n.Uid, Gid: n.Gid, Nlink: n.Nlink, Mtime: n.Mtime, Ino: ino}
	switch n.Kind {
	case KFile:
		s.Size = int64(len(n.Data))
	case KLink:
		s.Size = int64(len(n.Target))
	}
	return s
}

func (f *FS) Lstat(p string) (Stat, int) {
	r := f.walk(p, false)
	if r.Err != OK {
		return Stat{}, r.Err
	}
	return f.statOf(r.Ino), OK
}

func (f *FS) Stat(p string) (Stat, int) {
	r := f.walk(p, true)
	if r.Err != OK {
		return Stat{}, r.Err
	}
	return f.statOf(r.Ino), OK
}

func (f *FS) Readlink(p string) (string, int) {
	r := f.walk(p, false)
	if r.Err != OK {
		return "", r.Err
	}
	n := f.Nodes[r.Ino]
	if n.Kind != KLink {
		return "", EINVAL
	}
	return n.Target, OK
}

func (f *FS) newMode(perm uint32) uint32 { return perm & 0o777 &^ f.Umask }

// parentFor resolves the directory and final name for a creating call (the last
// component is not followed). Returns errno when the parent cannot be used.
func (f *FS) parentFor(p string) (Res, bool) {
	r := f.walk(p, false)
	_, trailing := split(p)
	return r, trailing
}

func (f *FS) Mkdir(p string, perm uint32) int {
	r, _ := f.parentFor(p)
	if r.Err == OK {
		return EEXIST
	}
	if r.Err != ENOENT || r.Name == "" {
		return r.Err
	}
	if !f.Permit(r.Parent, MayW|MayX) {
		return EACCES
	}
	pd := f.Nodes[r.Parent]
	n := &Inode{Kind: KDir, Mode: f.newMode(perm), Uid: f.Uid, Gid: f.Gid, Nlink: 2, Parent: r.Parent}
	if pd.Mode&0o2000 != 0 { // setgid directory: group and setgid bit are inherited
		n.Gid = pd.Gid
		n.Mode |= 0o2000
	}
	ino := f.alloc(n)
	f.addEnt(r.Parent, r.Name, ino)
	pd.Nlink++
	return OK
}

// MkdirAll is os.MkdirAll's algorithm over the model.
func (f *FS) MkdirAll(p string, perm uint32) int {
	st, e := f.Stat(p)
	if e == OK {
		if st.Kind == KDir {
			return OK
		}
		return ENOTDIR
	}
	// slow path: make sure the parent exists, then mkdir
	i := len(p)
	for i > 0 && p[i-1] == '/' {
		i--
	}
	j := i
	for j > 0 && p[j-1] != '/' {
		j--
	}
	if j > 1 {
		if e := f.MkdirAll(p[:j-1], perm); e != OK {
			return e
		}
	}
	e = f.Mkdir(p, perm)
	if e != OK {
		// handle arguments like "foo/." by double-checking that the directory does not exist
		st, e1 := f.Lstat(p)
		if e1 == OK && st.Kind == KDir {
			return OK
		}
		return e
	}
	return OK
}

// Handle is an open file description.
type Handle struct {
	Ino    int
	Off    int64
	Read   bool
	Write  bool
	Append bool
	Closed bool
	Dir    bool
	Pos    int // directory read position
}

// OpenFile models os.OpenFile (openat with O_CLOEXEC|O_LARGEFILE).
func (f *FS) OpenFile(p string, flag int, perm uint32) (*Handle, int) {
	acc := flag & 3
	wantW := acc == OWronly || acc == ORdwr
	wantR := acc == ORdonly || acc == ORdwr
	_, trailing := split(p)
	var ino int
	if flag&OCreate != 0 {
		r := f.walk(p, false)
		if r.Err != OK && r.Err != ENOENT {
			return nil, r.Err
		}
		if r.Err == OK && flag&OExcl != 0 {
			return nil, EEXIST
		}
		if r.Err == OK && f.Nodes[r.Ino].Kind == KLink {
			// follow the link: the target may be created
			r = f.walkCreateThroughLink(p)
			if r.Err != OK && r.Err != ENOENT {
				return nil, r.Err
			}
		}
		if r.Err == ENOENT {
			if r.Name == "" {
				return nil, ENOENT
			}
			if trailing {
				return nil, EISDIR
			}
			if !f.Permit(r.Parent, MayW|MayX) {
				return nil, EACCES
			}
			pd := f.Nodes[r.Parent]
			n := &Inode{Kind: KFile, Mode: f.newMode(perm), Uid: f.Uid, Gid: f.Gid, Nlink: 1}
			if pd.Mode&0o2000 != 0 {
				n.Gid = pd.Gid
			}
			ino = f.alloc(n)
			f.addEnt(r.Parent, r.Name, ino)
			return &Handle{Ino: ino, Read: wantR, Write: wantW, Append: flag&OAppend != 0}, OK
		}
		ino = r.Ino
		if f.Nodes[ino].Kind == KDir {
			return nil, EISDIR
		}
	} else {
		r := f.walk(p, true)
		if r.Err != OK {
			return nil, r.Err
		}
		ino = r.Ino
	}
	n := f.Nodes[ino]
	if n.Kind == KDir {
		if wantW || flag&OTrunc != 0 && acc != ORdonly {
			return nil, EISDIR
		}
		if flag&OTrunc != 0 {
			return nil, EISDIR
		}
	}
	var need uint32
	if wantR {
		need |= MayR
	}
	if wantW || flag&OTrunc != 0 {
		need |= MayW
	}
	if !f.Permit(ino, need) {
		return nil, EACCES
	}
	if flag&OTrunc != 0 && n.Kind == KFile {
		if len(n.Data) != 0 {
			n.Data = nil
		}
		n.Mtime = f.tick()
	}
	return &Handle{Ino: ino, Read: wantR, Write: wantW, Append: flag&OAppend != 0, Dir: n.Kind == KDir}, OK
}

// walkCreateThroughLink resolves p following a final symlink chain; when the
// final target does not exist the parent and name of the target are returned.
func (f *FS) walkCreateThroughLink(p string) Res {
	return f.walk(p, true)
}

func (f *FS) Remove(p string) int {
	// os.Remove: unlink, then rmdir, error selection
	r := f.walk(p, false)
	if r.Err != OK {
		return r.Err
	}
	if r.Name == "" {
		// root, "." or "..": unlink gives EISDIR, rmdir gives EBUSY/EINVAL/ENOTEMPTY
		if r.Ino == f.Root {
			return EBUSY
		}
		comps, _ := split(p)
		if len(comps) > 0 && comps[len(comps)-1] == "." {
			return EINVAL
		}
		return ENOTEMPTY
	}
	n := f.Nodes[r.Ino]
	_, trailing := split(p)
	if !f.Permit(r.Parent, MayW|MayX) {
		return EACCES
	}
	if !f.stickyOK(r.Parent, r.Ino) {
		return EPERM
	}
	if n.Kind == KDir {
		if len(n.Ents) != 0 {
			return ENOTEMPTY
		}
		f.delEnt(r.Parent, r.Name)
		f.Nodes[r.Parent].Nlink--
		n.Nlink = 0
		return OK
	}
	if trailing {
		return ENOTDIR
	}
	f.delEnt(r.Parent, r.Name)
	n.Nlink--
	return OK
}

// stickyOK: in a sticky directory only the owner of the entry, the owner of the
// directory or root may remove or rename it.
func (f *FS) stickyOK(dir, ino int) bool {
	d := f.Nodes[dir]
	if d.Mode&0o1000 == 0 || f.Uid == 0 {
		return true
	}
	return f.Nodes[ino].Uid == f.Uid || d.Uid == f.Uid
}

// RemoveAll models os.RemoveAll for the administrator.
func (f *FS) RemoveAll(p string) int {
	if p == "" {
		return OK
	}
	comps, _ := split(p)
	if len(comps) > 0 && comps[len(comps)-1] == "." {
		return EINVAL
	}
	e := f.Remove(p)
	if e == OK || e == ENOENT {
		return OK
	}
	r := f.walk(p, false)
	if r.Err != OK {
		if r.Err == ENOENT {
			return OK
		}
		return r.Err
	}
	if f.Nodes[r.Ino].Kind != KDir {
		return e
	}
	first := f.removeTree(r.Ino)
	e2 := f.Remove(p)
	if e2 == OK || e2 == ENOENT {
		return OK
	}
	if first != OK {
		return first
	}
	return e2
}

func (f *FS) removeTree(dir int) int {
	if !f.Permit(dir, MayR|MayX) {
		return EACCES
	}
	first := OK
	d := f.Nodes[dir]
	names := make([]string, len(d.Ents))
	for i := range d.Ents {
		names[i] = d.Ents[i].Name
	}
	for _, nm := range names {
		ino := f.lookup(dir, nm)
		n := f.Nodes[ino]
		if n.Kind == KDir {
			if e := f.removeTree(ino); e != OK && first == OK {
				first = e
			}
			if len(n.Ents) != 0 {
				continue
			}
		}
		if !f.Permit(dir, MayW|MayX) {
			if first == OK {
				first = EACCES
			}
			continue
		}
		f.delEnt(dir, nm)
		if n.Kind == KDir {
			d.Nlink--
			n.Nlink = 0
		} else {
			n.Nlink--
		}
	}
	return first
}

func (f *FS) isAncestor(a, b int) bool {
	// is directory a an ancestor of (or equal to) directory b?
	for {
		if a == b {
			return true
		}
		if b == f.Root {
			return false
		}
		b = f.Nodes[b].Parent
	}
}

// Rename models os.Rename (which itself answers EEXIST when newpath is an existing directory).
func (f *FS) Rename(oldp, newp string) int {
	// os.Rename on unix: newname an existing directory is reported before the syscall,
	// except that a bad oldname takes priority and a same-file pair goes to the kernel
	if st, e := f.Lstat(newp); e == OK && st.Kind == KDir {
		ost, oe := f.Lstat(oldp)
		if oe != OK {
			return oe
		}
		if newp == oldp || ost.Ino != st.Ino {
			return EEXIST
		}
	}
	o := f.walk(oldp, false)
	if o.Err != OK && !(o.Err == ENOENT && o.Name != "") {
		return o.Err // the parent of oldpath cannot be resolved
	}
	n := f.walk(newp, false)
	if n.Err != OK && !(n.Err == ENOENT && n.Name != "") {
		return n.Err // the parent of newpath cannot be resolved
	}
	if o.Err != OK {
		return o.Err
	}
	if o.Name == "" || n.Name == "" {
		return EBUSY
	}
	_, otrail := split(oldp)
	_, ntrail := split(newp)
	on := f.Nodes[o.Ino]
	if (otrail || ntrail) && on.Kind != KDir {
		return ENOTDIR
	}
	if n.Err == OK && n.Ino == o.Ino {
		return OK // same inode: nothing happens
	}
	if !f.Permit(o.Parent, MayW|MayX) {
		return EACCES
	}
	if !f.stickyOK(o.Parent, o.Ino) {
		return EPERM
	}
	if !f.Permit(n.Parent, MayW|MayX) {
		return EACCES
	}
	if on.Kind == KDir {
		if f.isAncestor(o.Ino, n.Parent) {
			return EINVAL
		}
		if o.Parent != n.Parent && !f.Permit(o.Ino, MayW) {
			return EACCES
		}
	}
	if n.Err == OK {
		nn := f.Nodes[n.Ino]
		if !f.stickyOK(n.Parent, n.Ino) {
			return EPERM
		}
		if on.Kind == KDir && nn.Kind != KDir {
			return ENOTDIR
		}
		if on.Kind != KDir && nn.Kind == KDir {
			return EISDIR
		}
		if nn.Kind == KDir && f.isAncestor(n.Ino, o.Parent) {
			return ENOTEMPTY
		}
		// replace
		f.delEnt(n.Parent, n.Name)
		nn.Nlink--
	}
	f.delEnt(o.Parent, o.Name)
	f.addEnt(n.Parent, n.Name, o.Ino)
	if on.Kind == KDir && o.Parent != n.Parent {
		f.Nodes[o.Parent].Nlink--
		f.Nodes[n.Parent].Nlink++
		on.Parent = n.Parent
	}
	return OK
}

func (f *FS) Link(oldp, newp string) int {
	o := f.walk(oldp, false)
	if o.Err != OK {
		return o.Err
	}
	n := f.walk(newp, false)
	if n.Err == OK {
		return EEXIST
	}
	if n.Err != ENOENT || n.Name == "" {
		if n.Err == OK {
			return EEXIST
		}
		return n.Err
	}
	on := f.Nodes[o.Ino]
	if on.Kind == KDir {
		return EPERM
	}
	_, ntrail := split(newp)
	if ntrail {
		return ENOENT
	}
	// fs.protected_hardlinks=1 (may_linkat): a non-owner needs read and write access to a regular source
	if f.ProtectedHardlinks && f.Uid != 0 && on.Uid != f.Uid {
		if on.Kind != KFile || on.Mode&0o4000 != 0 || on.Mode&0o2010 == 0o2010 || !f.Permit(o.Ino, MayR|MayW) {
			return EPERM
		}
	}
	if !f.Permit(n.Parent, MayW|MayX) {
		return EACCES
	}
	f.addEnt(n.Parent, n.Name, o.Ino)
	on.Nlink++
	return OK
}

func (f *FS) Symlink(target, newp string) int {
	if target == "" {
		return ENOENT
	}
	n := f.walk(newp, false)
	if n.Err == OK {
		return EEXIST
	}
	if n.Err != ENOENT || n.Name == "" {
		return n.Err
	}
	_, ntrail := split(newp)
	if ntrail {
		return ENOENT
	}
	if !f.Permit(n.Parent, MayW|MayX) {
		return EACCES
	}
	ino := f.alloc(&Inode{Kind: KLink, Mode: 0o777, Uid: f.Uid, Gid: f.Gid, Nlink: 1, Target: target})
	if f.Nodes[n.Parent].Mode&0o2000 != 0 {
		f.Nodes[ino].Gid = f.Nodes[n.Parent].Gid
	}
	f.addEnt(n.Parent, n.Name, ino)
	return OK
}

func (f *FS) Truncate(p string, size int64) int {
	if size < 0 {
		return EINVAL
	}
	r := f.walk(p, true)
	if r.Err != OK {
		return r.Err
	}
	n := f.Nodes[r.Ino]
	if n.Kind == KDir {
		return EISDIR
	}
	if size < 0 {
		return EINVAL
	}
	if !f.Permit(r.Ino, MayW) {
		return EACCES
	}
	f.resize(n, size)
	return OK
}

func (f *FS) resize(n *Inode, size int64) {
	if size < int64(len(n.Data)) {
		n.Data = n.Data[:size]
	} else if size > int64(len(n.Data)) {
		n.Data = append(n.Data, make([]byte, size-int64(len(n.Data)))...)
	}
	n.Mtime = f.tick()
}

func (f *FS) Chmod(p string, mode uint32) int {
	r := f.walk(p, true)
	if r.Err != OK {
		return r.Err
	}
	n := f.Nodes[r.Ino]
	if f.Uid != 0 && f.Uid != n.Uid {
		return EPERM
	}
	m := mode & 0o7777
	if f.Uid != 0 && n.Gid != f.Gid {
		m &^= 0o2000 // setgid is cleared when the caller is not in the file's group
	}
	n.Mode = m
	return OK
}

func (f *FS) chown(ino int, uid, gid int) int {
	n := f.Nodes[ino]
	if f.Uid != 0 {
		// chown_ok: the owner may "change" the uid to the value it already has;
		// chgrp_ok: the owner may change the group to the file's group or to its own group
		if uid != -1 && !(f.Uid == n.Uid && uid == n.Uid) {
			return EPERM
		}
		if gid != -1 && !(f.Uid == n.Uid && (gid == n.Gid || gid == f.Gid)) {
			return EPERM
		}
	}
	if uid == -1 && gid == -1 {
		return OK
	}
	if uid != -1 {
		n.Uid = uid
	}
	if gid != -1 {
		n.Gid = gid
	}
	if n.Kind == KFile {
		// chown clears setuid, and setgid when the file is group-executable
		n.Mode &^= 0o4000
		if n.Mode&0o010 != 0 {
			n.Mode &^= 0o2000
		}
	}
	return OK
}

func (f *FS) Chown(p string, uid, gid int) int {
	r := f.walk(p, true)
	if r.Err != OK {
		return r.Err
	}
	return f.chown(r.Ino, uid, gid)
}

func (f *FS) Lchown(p string, uid, gid int) int {
	r := f.walk(p, false)
	if r.Err != OK {
		return r.Err
	}
	return f.chown(r.Ino, uid, gid)
}

func (f *FS) Chtimes(p string) int {
	r := f.walk(p, true)
	if r.Err != OK {
		return r.Err
	}
	n := f.Nodes[r.Ino]
	if f.Uid != 0 && f.Uid != n.Uid {
		return EPERM
	}
	n.Mtime = f.tick()
	return OK
}

func (f *FS) Chdir(p string) int {
	r := f.walk(p, true)
	if r.Err != OK {
		return r.Err
	}
	if f.Nodes[r.Ino].Kind != KDir {
		return ENOTDIR
	}
	if !f.Permit(r.Ino, MayX) {
		return EACCES
	}
	f.Cwd = r.Ino
	return OK
}

// ReadDir returns the sorted names of a directory (os.ReadDir).
func (f *FS) ReadDir(p string) ([]string, int) {
	r := f.walk(p, true)
	if r.Err != OK {
		return nil, r.Err
	}
	n := f.Nodes[r.Ino]
	if n.Kind != KDir {
		return nil, ENOTDIR
	}
	if !f.Permit(r.Ino, MayR) {
		return nil, EACCES
	}
	return f.names(r.Ino), OK
}

func (f *FS) names(ino int) []string {
	n := f.Nodes[ino]
	out := make([]string, 0, len(n.Ents))
	for i := range n.Ents {
		// insertion sort
		nm := n.Ents[i].Name
		j := len(out)
		out = append(out, nm)
		for j > 0 && out[j-1] > nm {
			out[j] = out[j-1]
			j--
		}
		out[j] = nm
	}
	return out
}

func (f *FS) ReadFile(p string) ([]byte, int) {
	h, e := f.OpenFile(p, ORdonly, 0)
	if e != OK {
		return nil, e
	}
	n := f.Nodes[h.Ino]
	if n.Kind == KDir {
		return nil, EISDIR
	}
	return n.Data, OK
}

func (f *FS) WriteFile(p string, data []byte, perm uint32) int {
	h, e := f.OpenFile(p, OWronly|OCreate|OTrunc, perm)
	if e != OK {
		return e
	}
	n := f.Nodes[h.Ino]
	n.Data = append([]byte{}, data...)
	n.Mtime = f.tick()
	return OK
}

// ---- open-file I/O (os.File semantics) ----

// Pseudo errors of package os / io (same numbers as hx codes).
const (
	EOF         = 1001
	ErrClosed   = 1002
	ErrNegOff   = 1003
	ErrInvalid  = 1004
	ErrAppendAt = 1005
	EOVERFLOW   = 75
)

// MaxFileSize is tmpfs' s_maxbytes (MAX_LFS_FILESIZE).
const MaxFileSize = int64(^uint64(0) >> 1)

// Read models (*os.File).Read with a buffer of length n; returns the bytes read.
func (f *FS) Read(h *Handle, n int) ([]byte, int) {
	if h.Closed {
		return nil, ErrClosed
	}
	nd := f.Nodes[h.Ino]
	if n == 0 {
		return nil, OK
	}
	if !h.Read {
		return nil, EBADF
	}
	if nd.Kind == KDir {
		return nil, EISDIR
	}
	if h.Off >= int64(len(nd.Data)) {
		return nil, EOF
	}
	end := h.Off + int64(n)
	if end > int64(len(nd.Data)) {
		end = int64(len(nd.Data))
	}
	out := nd.Data[h.Off:end]
	h.Off = end
	return out, OK
}

// ReadAt models (*os.File).ReadAt.
func (f *FS) ReadAt(h *Handle, n int, off int64) ([]byte, int) {
	if h.Closed {
		return nil, ErrClosed
	}
	if off < 0 {
		return nil, ErrNegOff
	}
	nd := f.Nodes[h.Ino]
	if n == 0 {
		return nil, OK
	}
	if nd.Kind == KDir {
		return nil, EISDIR
	}
	if !h.Read {
		return nil, EBADF
	}
	if off >= int64(len(nd.Data)) {
		return nil, EOF
	}
	end := off + int64(n)
	code := OK
	if end > int64(len(nd.Data)) || end < 0 {
		end = int64(len(nd.Data))
		code = EOF
	}
	return nd.Data[off:end], code
}

func (f *FS) pwrite(nd *Inode, off int64, b []byte) {
	end := off + int64(len(b))
	if end > int64(len(nd.Data)) {
		nd.Data = append(nd.Data, make([]byte, end-int64(len(nd.Data)))...)
	}
	copy(nd.Data[off:], b)
	nd.Mtime = f.tick()
}

// Write models (*os.File).Write.
func (f *FS) Write(h *Handle, b []byte) (int, int) {
	if h.Closed {
		return 0, ErrClosed
	}
	nd := f.Nodes[h.Ino]
	if !h.Write || nd.Kind == KDir {
		return 0, EBADF
	}
	if len(b) == 0 {
		return 0, OK
	}
	if h.Append {
		h.Off = int64(len(nd.Data))
	}
	if h.Off > MaxFileSize-int64(len(b)) {
		return 0, EFBIG
	}
	f.pwrite(nd, h.Off, b)
	h.Off += int64(len(b))
	return len(b), OK
}

// WriteAt models (*os.File).WriteAt.
func (f *FS) WriteAt(h *Handle, b []byte, off int64) (int, int) {
	if h.Closed {
		return 0, ErrClosed
	}
	if h.Append {
		return 0, ErrAppendAt
	}
	if off < 0 {
		return 0, ErrNegOff
	}
	nd := f.Nodes[h.Ino]
	if len(b) == 0 {
		return 0, OK
	}
	if !h.Write || nd.Kind == KDir {
		return 0, EBADF
	}
	if off > MaxFileSize-int64(len(b)) {
		return 0, EFBIG
	}
	f.pwrite(nd, off, b)
	return len(b), OK
}

// Seek models (*os.File).Seek on a regular file.
func (f *FS) Seek(h *Handle, off int64, whence int) (int64, int) {
	if h.Closed {
		return 0, ErrClosed
	}
	nd := f.Nodes[h.Ino]
	var base int64
	switch whence {
	case 0:
	case 1:
		base = h.Off
	case 2:
		base = int64(len(nd.Data))
	case 3, 4: // SEEK_DATA, SEEK_HOLE (tmpfs: a small file is one data extent)
		if off < 0 || off >= int64(len(nd.Data)) {
			return 0, ENXIO
		}
		if whence == 4 {
			off = int64(len(nd.Data))
		}
		h.Off = off
		return off, OK
	default:
		return 0, EINVAL
	}
	n := base + off
	if off > 0 && n < base { // overflow wraps to a negative position: EINVAL
		return 0, EINVAL
	}
	if n < 0 {
		return 0, EINVAL
	}
	h.Off = n
	return n, OK
}

// FTruncate models (*os.File).Truncate.
func (f *FS) FTruncate(h *Handle, size int64) int {
	if h.Closed {
		return ErrClosed
	}
	nd := f.Nodes[h.Ino]
	if size < 0 || !h.Write || nd.Kind != KFile {
		return EINVAL
	}
	f.resize(nd, size)
	return OK
}

// FStat models (*os.File).Stat.
func (f *FS) FStat(h *Handle) (Stat, int) {
	if h.Closed {
		return Stat{}, ErrClosed
	}
	return f.statOf(h.Ino), OK
}

// FSync models (*os.File).Sync.
func (f *FS) FSync(h *Handle) int {
	if h.Closed {
		return ErrClosed
	}
	return OK
}

// FChmod models (*os.File).Chmod.
func (f *FS) FChmod(h *Handle, mode uint32) int {
	if h.Closed {
		return ErrClosed
	}
	n := f.Nodes[h.Ino]
	if f.Uid != 0 && f.Uid != n.Uid {
		return EPERM
	}
	n.Mode = mode & 0o7777
	return OK
}

// FChown models (*os.File).Chown.
func (f *FS) FChown(h *Handle, uid, gid int) int {
	if h.Closed {
		return ErrClosed
	}
	return f.chown(h.Ino, uid, gid)
}

// Close models (*os.File).Close.
func (f *FS) Close(h *Handle) int {
	if h.Closed {
		return ErrClosed
	}
	h.Closed = true
	return OK
}

// ReadDirN models (*os.File).Readdirnames(n) on a directory handle: entries in
// sorted order (tmpfs order differs; harnesses compare batches as sets and the
// union as a sorted list).
func (f *FS) ReadDirN(h *Handle, n int) ([]string, int) {
	if h.Closed {
		return nil, ErrClosed
	}
	nd := f.Nodes[h.Ino]
	if nd.Kind != KDir {
		return nil, ENOTDIR
	}
	all := f.names(h.Ino)
	if h.Pos > len(all) {
		h.Pos = len(all)
	}
	rest := all[h.Pos:]
	if n <= 0 {
		h.Pos = len(all)
		return rest, OK
	}
	if len(rest) == 0 {
		return nil, EOF
	}
	if n > len(rest) {
		n = len(rest)
	}
	h.Pos += n
	return rest[:n], OK
}

// EvalSymlinks is Go's filepath.EvalSymlinks algorithm (walkSymlinks, unix)
// over the model's Lstat and Readlink; "too many links" is reported as ELOOP.
func (f *FS) EvalSymlinks(path string) (string, int) {
	if path == "" {
		return "", OK // filepath.EvalSymlinks("") returns "", nil ... (walkSymlinks returns Clean("") = ".")
	}
	volLen := 0
	if len(path) > 0 && path[0] == '/' {
		volLen = 1
	}
	vol := path[:volLen]
	dest := vol
	links := 0
	for start, end := volLen, volLen; start < len(path); start = end {
		for start < len(path) && path[start] == '/' {
			start++
		}
		end = start
		for end < len(path) && path[end] != '/' {
			end++
		}
		if end == start {
			break
		} else if path[start:end] == "." {
			continue
		} else if path[start:end] == ".." {
			var r int
			for r = len(dest) - 1; r >= volLen; r-- {
				if dest[r] == '/' {
					break
				}
			}
			if r < volLen || dest[r+1:] == ".." {
				if len(dest) > volLen {
					dest += "/"
				}
				dest += ".."
			} else {
				dest = dest[:r]
			}
			continue
		}
		if len(dest) > 0 && dest[len(dest)-1] != '/' {
			dest += "/"
		}
		dest += path[start:end]
		st, e := f.Lstat(dest)
		if e != OK {
			return "", e
		}
		if st.Kind != KLink {
			if st.Kind != KDir && end < len(path) {
				return "", ENOTDIR
			}
			continue
		}
		links++
		if links > 255 {
			return "", ELOOP
		}
		link, e := f.Readlink(dest)
		if e != OK {
			return "", e
		}
		path = link + path[end:]
		if len(link) > 0 && link[0] == '/' {
			dest = link[:1]
			end = 1
			vol = link[:1]
			volLen = 1
		} else {
			var r int
			for r = len(dest) - 1; r >= volLen; r-- {
				if dest[r] == '/' {
					break
				}
			}
			if r < volLen {
				dest = vol
			} else {
				dest = dest[:r]
			}
			end = 0
		}
	}
	return cleanPath(dest), OK
}

// cleanPath is path.Clean for slash-separated paths.
func cleanPath(p string) string {
	if p == "" {
		return "."
	}
	rooted := p[0] == '/'
	comps, _ := split(p)
	var out []string
	for _, c := range comps {
		switch c {
		case ".":
		case "..":
			if len(out) > 0 && out[len(out)-1] != ".." {
				out = out[:len(out)-1]
			} else if !rooted {
				out = append(out, "..")
			}
		default:
			out = append(out, c)
		}
	}
	s := ""
	for i, c := range out {
		if i > 0 {
			s += "/"
		}
		s += c
	}
	if rooted {
		return "/" + s
	}
	if s == "" {
		return "."
	}
	return s
}
