//go:build avfs_setostype

// Package alltag links the harness packages that need the avfs_setostype build tag.
package alltag

import (
	_ "verif/harness/c17"
)
