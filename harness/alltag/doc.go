// Package alltag links the harness packages that need the avfs_setostype build tag.
package alltag
