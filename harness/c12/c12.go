// Package c12: FailFS is transparent unless told to fail; an injected failure is
// returned as is and has no effect; composites fail when a primitive fails; the
// supplied read-only failure function keeps the base unchanged.
package c12

import (
	"errors"
	"io/fs"

	"github.com/avfs/avfs"
	"github.com/avfs/avfs/vfs/failfs"

	"verif/harness/hx"
	"verif/harness/sym"
)

func init() {
	sym.Register("c12.HTransparentMut", HTransparentMut)
	sym.Register("c12.HTransparentRead", HTransparentRead)
	sym.Register("c12.HInject", HInject)
	sym.Register("c12.HReadOnly", HReadOnly)
}

var operands = []string{"/w/a/a", "/w/a", "/w/c", "/w/b", "/w"}
var operandKinds = []string{"file", "dir", "missing", "file2", "scratch"}

// NumOperands is len(operands).
const NumOperands = 5

var errInjected = errors.New("injected fault")

func scalars() hx.Scalars {
	return hx.Scalars{
		Mode: fs.FileMode(sym.Uint32("mode")), Perm: fs.FileMode(sym.Uint32("perm")),
		Uid: sym.Int("uid"), Gid: sym.Int("gid"), Sec: sym.Int64("sec"), Size: sym.Int64("size"),
		Flag: sym.Int("flag"), Data: sym.Bytes("data", 2),
	}
}

// wrapped reports whether a handle handed out by a FailFS is still a FailFS object
// (its primitives consult the failure function).
func wrappedFile(f avfs.File) bool {
	_, ok := f.(*failfs.FailFile)
	return ok
}

// HTransparentMut: with no failure function (and with an explicit function that
// never fails) a mutating call through FailFS equals the same call on a twin base.
func HTransparentMut(kind, seed, m, explicit int) {
	a := hx.NewBase(kind)
	b := hx.NewBase(kind)
	if seed == 3 && !a.HasFeature(avfs.FeatSymlink) {
		return
	}
	hx.Seed(a, seed)
	hx.Seed(b, seed)
	ff := failfs.New(a)
	if explicit == 1 {
		_ = ff.SetFailFunc(func(avfs.VFSBase, avfs.FnVFS, *failfs.FailParam) error { return nil })
	}
	name := hx.Mutators[m]
	pi := sym.Choose("p", NumOperands)
	p := operands[pi]
	label := hx.KindName(kind) + "|" + name + "|" + operandKinds[pi]
	sym.Label(label)
	sym.Reach("transparent-mut")
	s := scalars()
	if name == "Truncate" {
		sym.Assume(s.Size <= 8)
	}
	var fa, fb avfs.File
	var ea, eb error
	res := sym.Outcome(func() { fa, ea = hx.Mutate(ff, name, p, "/w/new", s) })
	sym.Assert(!res.Panicked, "C12|"+label+"|panic|"+res.Class+"|"+res.Site)
	fb, eb = hx.Mutate(b, name, p, "/w/new", s)
	sym.Observe("err", hx.Code(ea))
	sym.Assert(hx.Code(ea) == hx.Code(eb), "C12|"+label+"|transparent|error-differs|"+hx.CodeName(hx.Code(ea))+"-vs-"+hx.CodeName(hx.Code(eb)))
	if ea == nil && fa != nil {
		sym.Assert(wrappedFile(fa), "C12|"+label+"|transparent|returned-file-not-wrapped")
		_, wa := fa.Write([]byte("Q"))
		var wb error
		if fb != nil {
			_, wb = fb.Write([]byte("Q"))
			_ = fb.Close()
		}
		_ = fa.Close()
		sym.Assert(hx.Code(wa) == hx.Code(wb), "C12|"+label+"|transparent|write-through-returned-file-differs")
	}
	if name != "CreateTemp" && name != "MkdirTemp" { // random names differ between the twins
		sym.Assert(hx.Snapshot(a, "/", false) == hx.Snapshot(b, "/", false), "C12|"+label+"|transparent|tree-differs")
	}
}

// HTransparentRead: read-only calls through FailFS return what the base returns.
func HTransparentRead(kind, seed, m int) {
	a := hx.NewBase(kind)
	if seed == 3 && !a.HasFeature(avfs.FeatSymlink) {
		return
	}
	hx.Seed(a, seed)
	ff := failfs.New(a)
	name := hx.Readers[m]
	pi := sym.Choose("p", NumOperands)
	p := operands[pi]
	label := hx.KindName(kind) + "|" + name + "|" + operandKinds[pi]
	sym.Label(label)
	sym.Reach("transparent-read")
	want := hx.Render(a, name, p)
	var got string
	res := sym.Outcome(func() { got = hx.Render(ff, name, p) })
	sym.Assert(!res.Panicked, "C12|"+label+"|panic|"+res.Class+"|"+res.Site)
	sym.Observe("got", got)
	sym.Assert(got == want, "C12|"+label+"|transparent|result-differs")
	// Sub hands out a file system that is still a FailFS
	if name == "Stat" && pi == 1 && a.HasFeature(avfs.FeatSubFS) {
		s, err := ff.Sub(p)
		if err == nil {
			_, ok := s.(*failfs.FailFS)
			sym.Assert(ok, "C12|"+hx.KindName(kind)+"|Sub|transparent|returned-filesystem-not-wrapped")
		}
	}
}

// primitivesOf lists the primitives a successful composite call is built on.
func primitivesOf(name string) []avfs.FnVFS {
	switch name {
	case "Create":
		return []avfs.FnVFS{avfs.FnOpenFile}
	case "WriteFile":
		return []avfs.FnVFS{avfs.FnOpenFile, avfs.FnFileWrite, avfs.FnFileClose}
	case "MkdirTemp":
		return []avfs.FnVFS{avfs.FnMkdir}
	}
	return nil
}

func composite(name string) bool {
	return name == "Create" || name == "WriteFile" || name == "MkdirTemp" || name == "CreateTemp"
}

// HInject: the failure function fails invocation i iff the symbolic boolean
// fail#i (at most one fault). A primitive call then returns exactly the injected
// error and leaves the base untouched; a composite returns an error.
func HInject(kind, seed, m int) {
	a := hx.NewBase(kind)
	if seed == 3 && !a.HasFeature(avfs.FeatSymlink) {
		return
	}
	hx.Seed(a, seed)
	ff := failfs.New(a)
	fired := 0
	consulted := 0
	firedFn := ""
	callDone := false
	var fns []avfs.FnVFS
	_ = ff.SetFailFunc(func(_ avfs.VFSBase, fn avfs.FnVFS, _ *failfs.FailParam) error {
		if callDone {
			return nil
		}
		consulted++
		fns = append(fns, fn)
		if fired == 0 && sym.Bool("fail") {
			fired++
			firedFn = fn.String()
			return errInjected
		}
		return nil
	})
	name := hx.Mutators[m]
	pi := sym.Choose("p", NumOperands)
	p := operands[pi]
	label := hx.KindName(kind) + "|" + name + "|" + operandKinds[pi]
	sym.Label(label)
	sym.Reach("inject")
	s := scalars()
	if name == "Truncate" {
		sym.Assume(s.Size <= 8)
	}
	before := hx.Snapshot(a, "/", true)
	var f avfs.File
	var err error
	res := sym.Outcome(func() {
		f, err = hx.Mutate(ff, name, p, "/w/new", s)
		callDone = true
		if f != nil && err == nil {
			_ = f.Close()
		}
	})
	sym.Assert(!res.Panicked, "C12|"+label+"|inject|panic|"+res.Class+"|"+res.Site)
	sym.Observe("err", hx.Code(err))
	sym.Observe("consulted", consulted)
	sym.Assert(consulted > 0, "C12|"+label+"|failure-function-never-consulted")
	if fired == 0 && err == nil {
		// a composite that succeeded must have gone through the primitives it is built on
		for _, need := range primitivesOf(name) {
			found := false
			for _, g := range fns {
				if g == need {
					found = true
				}
			}
			sym.Assert(found, "C12|"+label+"|inject|primitive-"+need.String()+"-never-consulted")
		}
	}
	if fired > 0 {
		sym.Reach("fault-fired")
		if composite(name) {
			sym.Assert(err != nil, "C12|"+label+"|inject|composite-succeeds-although-"+firedFn+"-failed")
		} else {
			sym.Assert(err == errInjected, "C12|"+label+"|inject|injected-error-not-returned")
			sym.Assert(hx.Snapshot(a, "/", true) == before, "C12|"+label+"|inject|base-changed-by-failed-call")
		}
	}
}

// HReadOnly: with failfs.ReadOnlyFunc no call (nor anything handed out) changes the base.
func HReadOnly(kind, seed, via, m int) {
	a := hx.NewBase(kind)
	if seed == 3 && !a.HasFeature(avfs.FeatSymlink) {
		return
	}
	if via == 1 && !a.HasFeature(avfs.FeatSubFS) {
		return
	}
	hx.Seed(a, seed)
	ff := failfs.New(a)
	_ = ff.SetFailFunc(failfs.ReadOnlyFunc)
	var v avfs.VFS = ff
	p := ""
	pi := sym.Choose("p", NumOperands)
	p = operands[pi]
	q := "/w/new"
	if via == 1 {
		s, err := ff.Sub("/w")
		if err != nil {
			sym.Cut("Sub failed")
		}
		v = s
		if len(p) > 2 {
			p = p[2:]
		} else {
			p = "/"
		}
		q = "/new"
	}
	name := hx.Mutators[m]
	label := hx.KindName(kind) + "|" + name + "|" + operandKinds[pi]
	if via == 1 {
		label += "|via-Sub"
	}
	sym.Label(label)
	sym.Reach("readonly")
	s := scalars()
	if name == "Truncate" {
		sym.Assume(s.Size <= 8)
	}
	before := hx.Snapshot(a, "/", true)
	res := sym.Outcome(func() {
		f, err := hx.Mutate(v, name, p, q, s)
		if f != nil && err == nil {
			hx.WriteThrough(f)
		}
	})
	sym.Assert(!res.Panicked, "C12|"+label+"|readonly|panic|"+res.Class+"|"+res.Site)
	sym.Assert(hx.Snapshot(a, "/", true) == before, "C12|"+label+"|readonly|base-changed")
}
