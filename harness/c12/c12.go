// Package c12: FailFS is transparent unless told to fail; an injected failure is
// returned as is and has no effect; composites fail when a primitive fails; the
// supplied read-only failure function keeps the base unchanged.
package c12

import (
	"errors"
	"io/fs"

	"github.com/avfs/avfs"
	"github.com/avfs/avfs/vfs/failfs"

	"verif/harness/hx"
	"verif/harness/sym"
)

func init() {
	sym.Register("c12.HTransparentMut", HTransparentMut)
	sym.Register("c12.HTransparentRead", HTransparentRead)
	sym.Register("c12.HInject", HInject)
	sym.Register("c12.HReadOnly", HReadOnly)
	sym.Register("c12.HInjectRead", HInjectRead)
	sym.Register("c12.HFile", HFile)
}

var operands = []string{"/w/a/a", "/w/a", "/w/c", "/w/b", "/w"}
var operandKinds = []string{"file", "dir", "missing", "file2", "scratch"}

// NumOperands is len(operands).
const NumOperands = 5

var errInjected = errors.New("injected fault")

func scalars() hx.Scalars {
	return hx.Scalars{
		Mode: fs.FileMode(sym.Uint32("mode")), Perm: fs.FileMode(sym.Uint32("perm")),
		Uid: sym.Int("uid"), Gid: sym.Int("gid"), Sec: sym.Int64("sec"), Size: sym.Int64("size"),
		Flag: sym.Int("flag"), Data: sym.Bytes("data", 2),
	}
}

// wrapped reports whether a handle handed out by a FailFS is still a FailFS object
// (its primitives consult the failure function).
func wrappedFile(f avfs.File) bool {
	_, ok := f.(*failfs.FailFile)
	return ok
}

// HTransparentMut: with no failure function (and with an explicit function that
// never fails) a mutating call through FailFS equals the same call on a twin base.
func HTransparentMut(kind, seed, m, explicit int) {
	a := hx.NewBase(kind)
	b := hx.NewBase(kind)
	if seed == 3 && !a.HasFeature(avfs.FeatSymlink) {
		return
	}
	hx.Seed(a, seed)
	hx.Seed(b, seed)
	ff := failfs.New(a)
	if explicit == 1 {
		_ = ff.SetFailFunc(func(avfs.VFSBase, avfs.FnVFS, *failfs.FailParam) error { return nil })
	}
	name := hx.Mutators[m]
	pi := sym.Choose("p", NumOperands)
	p := operands[pi]
	label := hx.KindName(kind) + "|" + name + "|" + operandKinds[pi]
	sym.Label(label)
	sym.Reach("transparent-mut")
	s := scalars()
	if name == "Truncate" {
		sym.Assume(s.Size <= 8)
	}
	var fa, fb avfs.File
	var ea, eb error
	res := sym.Outcome(func() { fa, ea = hx.Mutate(ff, name, p, "/w/new", s) })
	sym.Assert(!res.Panicked, "C12|"+label+"|panic|"+res.Class+"|"+res.Site)
	fb, eb = hx.Mutate(b, name, p, "/w/new", s)
	sym.Observe("err", hx.Code(ea))
	sym.Assert(hx.Code(ea) == hx.Code(eb), "C12|"+label+"|transparent|error-differs|"+hx.CodeName(hx.Code(ea))+"-vs-"+hx.CodeName(hx.Code(eb)))
	if ea == nil && fa != nil {
		sym.Assert(wrappedFile(fa), "C12|"+label+"|transparent|returned-file-not-wrapped")
		_, wa := fa.Write([]byte("Q"))
		var wb error
		if fb != nil {
			_, wb = fb.Write([]byte("Q"))
			_ = fb.Close()
		}
		_ = fa.Close()
		sym.Assert(hx.Code(wa) == hx.Code(wb), "C12|"+label+"|transparent|write-through-returned-file-differs")
	}
	if name != "CreateTemp" && name != "MkdirTemp" { // random names differ between the twins
		sym.Assert(hx.Snapshot(a, "/", false) == hx.Snapshot(b, "/", false), "C12|"+label+"|transparent|tree-differs")
	}
}

// HTransparentRead: read-only calls through FailFS return what the base returns.
func HTransparentRead(kind, seed, m int) {
	a := hx.NewBase(kind)
	if seed == 3 && !a.HasFeature(avfs.FeatSymlink) {
		return
	}
	hx.Seed(a, seed)
	ff := failfs.New(a)
	name := hx.Readers[m]
	pi := sym.Choose("p", NumOperands)
	p := operands[pi]
	label := hx.KindName(kind) + "|" + name + "|" + operandKinds[pi]
	sym.Label(label)
	sym.Reach("transparent-read")
	want := hx.Render(a, name, p)
	var got string
	res := sym.Outcome(func() { got = hx.Render(ff, name, p) })
	sym.Assert(!res.Panicked, "C12|"+label+"|panic|"+res.Class+"|"+res.Site)
	sym.Observe("got", got)
	sym.Assert(got == want, "C12|"+label+"|transparent|result-differs")
	// Sub hands out a file system that is still a FailFS
	if name == "Stat" && pi == 1 && a.HasFeature(avfs.FeatSubFS) {
		s, err := ff.Sub(p)
		if err == nil {
			_, ok := s.(*failfs.FailFS)
			sym.Assert(ok, "C12|"+hx.KindName(kind)+"|Sub|transparent|returned-filesystem-not-wrapped")
		}
	}
}

// primitivesOf lists the primitives a successful composite call is built on.
func primitivesOf(name string) []avfs.FnVFS {
	switch name {
	case "Create":
		return []avfs.FnVFS{avfs.FnOpenFile}
	case "WriteFile":
		return []avfs.FnVFS{avfs.FnOpenFile, avfs.FnFileWrite, avfs.FnFileClose}
	case "MkdirTemp":
		return []avfs.FnVFS{avfs.FnMkdir}
	}
	return nil
}

func composite(name string) bool {
	return name == "Create" || name == "WriteFile" || name == "MkdirTemp" || name == "CreateTemp"
}

// HInject: the failure function fails invocation i iff the symbolic boolean
// fail#i (at most one fault). A primitive call then returns exactly the injected
// error and leaves the base untouched; a composite returns an error.
func HInject(kind, seed, m int) {
	a := hx.NewBase(kind)
	if seed == 3 && !a.HasFeature(avfs.FeatSymlink) {
		return
	}
	hx.Seed(a, seed)
	ff := failfs.New(a)
	fired := 0
	consulted := 0
	firedFn := ""
	callDone := false
	var fns []avfs.FnVFS
	_ = ff.SetFailFunc(func(_ avfs.VFSBase, fn avfs.FnVFS, _ *failfs.FailParam) error {
		if callDone {
			return nil
		}
		consulted++
		fns = append(fns, fn)
		if fired == 0 && sym.Bool("fail") {
			fired++
			firedFn = fn.String()
			return errInjected
		}
		return nil
	})
	name := hx.Mutators[m]
	pi := sym.Choose("p", NumOperands)
	p := operands[pi]
	label := hx.KindName(kind) + "|" + name + "|" + operandKinds[pi]
	sym.Label(label)
	sym.Reach("inject")
	s := scalars()
	if name == "Truncate" {
		sym.Assume(s.Size <= 8)
	}
	before := hx.Snapshot(a, "/", true)
	var f avfs.File
	var err error
	res := sym.Outcome(func() {
		f, err = hx.Mutate(ff, name, p, "/w/new", s)
		callDone = true
		if f != nil && err == nil {
			_ = f.Close()
		}
	})
	sym.Assert(!res.Panicked, "C12|"+label+"|inject|panic|"+res.Class+"|"+res.Site)
	sym.Observe("err", hx.Code(err))
	sym.Observe("consulted", consulted)
	sym.Assert(consulted > 0, "C12|"+label+"|failure-function-never-consulted")
	if fired == 0 && err == nil {
		// a composite that succeeded must have gone through the primitives it is built on
		for _, need := range primitivesOf(name) {
			found := false
			for _, g := range fns {
				if g == need {
					found = true
				}
			}
			sym.Assert(found, "C12|"+label+"|inject|primitive-"+need.String()+"-never-consulted")
		}
	}
	if fired > 0 {
		sym.Reach("fault-fired")
		if composite(name) {
			sym.Assert(err != nil, "C12|"+label+"|inject|composite-succeeds-although-"+firedFn+"-failed")
		} else {
			sym.Assert(err == errInjected, "C12|"+label+"|inject|injected-error-not-returned")
			sym.Assert(hx.Snapshot(a, "/", true) == before, "C12|"+label+"|inject|base-changed-by-failed-call")
		}
	}
}

// HReadOnly: with failfs.ReadOnlyFunc no call (nor anything handed out) changes the base.
func HReadOnly(kind, seed, via, m int) {
	a := hx.NewBase(kind)
	if seed == 3 && !a.HasFeature(avfs.FeatSymlink) {
		return
	}
	if via == 1 && !a.HasFeature(avfs.FeatSubFS) {
		return
	}
	hx.Seed(a, seed)
	ff := failfs.New(a)
	_ = ff.SetFailFunc(failfs.ReadOnlyFunc)
	var v avfs.VFS = ff
	p := ""
	pi := sym.Choose("p", NumOperands)
	p = operands[pi]
	q := "/w/new"
	if via == 1 {
		s, err := ff.Sub("/w")
		if err != nil {
			sym.Cut("Sub failed")
		}
		v = s
		if len(p) > 2 {
			p = p[2:]
		} else {
			p = "/"
		}
		q = "/new"
	}
	name := hx.Mutators[m]
	label := hx.KindName(kind) + "|" + name + "|" + operandKinds[pi]
	if via == 1 {
		label += "|via-Sub"
	}
	sym.Label(label)
	sym.Reach("readonly")
	s := scalars()
	if name == "Truncate" {
		sym.Assume(s.Size <= 8)
	}
	before := hx.Snapshot(a, "/", true)
	res := sym.Outcome(func() {
		f, err := hx.Mutate(v, name, p, q, s)
		if f != nil && err == nil {
			hx.WriteThrough(f)
		}
	})
	sym.Assert(!res.Panicked, "C12|"+label+"|readonly|panic|"+res.Class+"|"+res.Site)
	sym.Assert(hx.Snapshot(a, "/", true) == before, "C12|"+label+"|readonly|base-changed")
}

// readCall performs read-only call name on p and returns its error; done is
// called when the call proper is over (before the harness closes what it got).
func readCall(v avfs.VFS, name, p string, done func()) error {
	switch name {
	case "Stat":
		_, err := v.Stat(p)
		return err
	case "Lstat":
		_, err := v.Lstat(p)
		return err
	case "ReadDir":
		_, err := v.ReadDir(p)
		return err
	case "ReadFile":
		_, err := v.ReadFile(p)
		return err
	case "Readlink":
		_, err := v.Readlink(p)
		return err
	case "EvalSymlinks":
		_, err := v.EvalSymlinks(p)
		return err
	case "Glob":
		_, err := v.Glob(p + "/*")
		return err
	case "OpenRead", "OpenReadDir":
		f, err := v.Open(p)
		done()
		if err == nil {
			_ = f.Close()
		}
		return err
	case "WalkDir":
		return v.WalkDir(p, func(path string, d fs.DirEntry, err error) error { return err })
	}
	return nil
}

// HInjectRead: one fault (chosen by the solver) during a read-only call: a
// primitive returns exactly the injected error, a composite (ReadFile, ReadDir,
// Glob, WalkDir) returns an error, and the base is untouched either way.
func HInjectRead(kind, seed, m int) {
	a := hx.NewBase(kind)
	if seed == 3 && !a.HasFeature(avfs.FeatSymlink) {
		return
	}
	hx.Seed(a, seed)
	ff := failfs.New(a)
	fired := 0
	consulted := 0
	firedFn := ""
	callDone := false
	_ = ff.SetFailFunc(func(_ avfs.VFSBase, fn avfs.FnVFS, _ *failfs.FailParam) error {
		if callDone {
			return nil
		}
		consulted++
		if fired == 0 && sym.Bool("fail") {
			fired++
			firedFn = fn.String()
			return errInjected
		}
		return nil
	})
	name := hx.Readers[m]
	pi := sym.Choose("p", NumOperands)
	p := operands[pi]
	label := hx.KindName(kind) + "|" + name + "|" + operandKinds[pi]
	sym.Label(label)
	sym.Reach("inject-read")
	before := hx.Snapshot(a, "/", true)
	var err error
	res := sym.Outcome(func() {
		err = readCall(ff, name, p, func() { callDone = true })
		callDone = true
	})
	sym.Assert(!res.Panicked, "C12|"+label+"|inject|panic|"+res.Class+"|"+res.Site)
	sym.Observe("err", hx.Code(err))
	sym.Observe("consulted", consulted)
	sym.Assert(consulted > 0, "C12|"+label+"|failure-function-never-consulted")
	if fired > 0 {
		sym.Reach("read-fault-fired")
		switch name {
		case "ReadFile", "ReadDir", "Glob", "WalkDir":
			sym.Assert(err != nil, "C12|"+label+"|inject|composite-succeeds-although-"+firedFn+"-failed")
		default:
			sym.Assert(err == errInjected, "C12|"+label+"|inject|injected-error-not-returned")
		}
	}
	sym.Assert(hx.Snapshot(a, "/", true) == before, "C12|"+label+"|inject|base-changed-by-read-call")
}

var fileMethods = []string{"Chdir", "Chmod", "Chown", "Close", "Read", "ReadAt", "ReadDir", "Readdirnames", "Seek", "Stat", "Sync", "Truncate", "Write", "WriteAt", "WriteString"}

// NumFileMethods is len(fileMethods).
const NumFileMethods = 15

// fileCall performs File method name and renders everything it returned.
func fileCall(f avfs.File, name string, s hx.Scalars, n int) (string, error) {
	switch name {
	case "Chdir":
		err := f.Chdir()
		return "", err
	case "Chmod":
		err := f.Chmod(s.Mode & 0o777)
		return "", err
	case "Chown":
		err := f.Chown(s.Uid, s.Gid)
		return "", err
	case "Close":
		err := f.Close()
		return "", err
	case "Read":
		b := make([]byte, n)
		k, err := f.Read(b)
		return hx.Itoa(k) + ":" + string(b[:k]), err
	case "ReadAt":
		b := make([]byte, n)
		k, err := f.ReadAt(b, s.Sec)
		if k < 0 || k > n {
			k = 0
		}
		return hx.Itoa(k) + ":" + string(b[:k]), err
	case "ReadDir":
		es, err := f.ReadDir(n - 1)
		out := ""
		for _, e := range es {
			out += e.Name() + ","
		}
		return out, err
	case "Readdirnames":
		ns, err := f.Readdirnames(n - 1)
		out := ""
		for _, e := range ns {
			out += e + ","
		}
		return out, err
	case "Seek":
		o, err := f.Seek(s.Sec, s.Flag)
		return hx.Itoa(int(o)), err
	case "Stat":
		fi, err := f.Stat()
		if err != nil {
			return "", err
		}
		return fi.Name() + "," + hx.Itoa(int(fi.Size())) + "," + hx.Itoa(int(fi.Mode())), nil
	case "Sync":
		return "", f.Sync()
	case "Truncate":
		return "", f.Truncate(s.Size)
	case "Write":
		k, err := f.Write(s.Data[:n%3])
		return hx.Itoa(k), err
	case "WriteAt":
		k, err := f.WriteAt(s.Data[:n%3], s.Sec)
		return hx.Itoa(k), err
	case "WriteString":
		k, err := f.WriteString(string(s.Data[:n%3]))
		return hx.Itoa(k), err
	}
	return "", nil
}

var handleKinds = []string{"rdwr", "rdonly", "append", "dir"}

func openHandle(v avfs.VFS, st int) (avfs.File, error) {
	switch st {
	case 0:
		return v.OpenFile("/w/a/a", 2, 0)
	case 1:
		return v.OpenFile("/w/a/a", 0, 0)
	case 2:
		return v.OpenFile("/w/a/a", 1|0x400, 0)
	}
	return v.OpenFile("/w/a", 0, 0)
}

// HFile: File method m on a handle (state st) obtained through FailFS, after an
// optional Seek. mode 0: no failure function - result, error, following offset
// and tree equal those of the same method on a handle of a twin base. mode 1:
// the solver may fail the one consultation the method makes: exactly the
// injected error comes back, the base and the handle's offset are untouched.
func HFile(kind, st, m, mode int) {
	a := hx.NewBase(kind)
	b := hx.NewBase(kind)
	hx.Seed(a, 1)
	hx.Seed(b, 1)
	ff := failfs.New(a)
	fa, ea := openHandle(ff, st)
	fb, eb := openHandle(b, st)
	if ea != nil || eb != nil {
		return
	}
	name := fileMethods[m]
	label := hx.KindName(kind) + "|File." + name + "|" + handleKinds[st]
	sym.Label(label)
	sym.Reach("file")
	sym.Assert(wrappedFile(fa), "C12|"+label+"|returned-file-not-wrapped")
	s := scalars()
	sym.Assume(s.Size <= 8 && s.Sec <= 8)
	n := sym.Choose("n", 4)
	if st != 3 && sym.Bool("preseek") {
		_, _ = fa.Seek(1, 0)
		_, _ = fb.Seek(1, 0)
	}
	fired := 0
	consulted := 0
	callDone := false
	if mode == 1 {
		_ = ff.SetFailFunc(func(_ avfs.VFSBase, fn avfs.FnVFS, _ *failfs.FailParam) error {
			if callDone {
				return nil
			}
			consulted++
			if fired == 0 && sym.Bool("fail") {
				fired++
				return errInjected
			}
			return nil
		})
	}
	before := hx.Snapshot(a, "/", true)
	var ra, rb string
	var erra, errb error
	res := sym.Outcome(func() {
		ra, erra = fileCall(fa, name, s, n)
		callDone = true
	})
	sym.Assert(!res.Panicked, "C12|"+label+"|panic|"+res.Class+"|"+res.Site)
	sym.Observe("err", hx.Code(erra))
	if mode == 1 {
		sym.Assert(consulted > 0, "C12|"+label+"|failure-function-never-consulted")
	}
	if fired > 0 {
		sym.Reach("file-fault-fired")
		sym.Assert(erra == errInjected, "C12|"+label+"|inject|injected-error-not-returned")
		sym.Assert(hx.Snapshot(a, "/", true) == before, "C12|"+label+"|inject|base-changed-by-failed-call")
		if st != 3 && name != "Close" {
			oa, _ := fa.Seek(0, 1)
			ob, _ := fb.Seek(0, 1)
			sym.Assert(oa == ob, "C12|"+label+"|inject|offset-moved-by-failed-call")
		}
		// the handle itself is as usable as a twin handle that never saw the
		// failed call (a refused Close must not have closed the base handle)
		pa, perra := fileCall(fa, "Stat", s, n)
		pb, perrb := fileCall(fb, "Stat", s, n)
		sym.Assert(hx.Code(perra) == hx.Code(perrb) && pa == pb, "C12|"+label+"|inject|handle-state-changed-by-failed-call|Stat")
		ca, cb := fa.Close(), fb.Close()
		sym.Assert(hx.Code(ca) == hx.Code(cb), "C12|"+label+"|inject|handle-state-changed-by-failed-call|Close|"+hx.CodeName(hx.Code(ca))+"-vs-"+hx.CodeName(hx.Code(cb)))
		return
	}
	rb, errb = fileCall(fb, name, s, n)
	sym.Assert(hx.Code(erra) == hx.Code(errb), "C12|"+label+"|transparent|error-differs|"+hx.CodeName(hx.Code(erra))+"-vs-"+hx.CodeName(hx.Code(errb)))
	sym.Assert(ra == rb, "C12|"+label+"|transparent|result-differs")
	if st != 3 && name != "Close" {
		oa, _ := fa.Seek(0, 1)
		ob, _ := fb.Seek(0, 1)
		sym.Assert(oa == ob, "C12|"+label+"|transparent|offset-differs")
	}
	sym.Assert(hx.Snapshot(a, "/", false) == hx.Snapshot(b, "/", false), "C12|"+label+"|transparent|tree-differs")
}
