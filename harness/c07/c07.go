// Package c07: every VFS, File and identity-manager call returns without
// panicking, for adversarial arguments; deadlocks and non-termination are
// detected by the engine (no runnable thread / instruction budget).
package c07

import (
	"errors"
	"io/fs"
	"time"

	"github.com/avfs/avfs"
	"github.com/avfs/avfs/idm/memidm"
	"github.com/avfs/avfs/vfs/failfs"

	"verif/harness/hx"
	"verif/harness/sym"
)

func init() {
	sym.Register("c07.HVFS", HVFS)
	sym.Register("c07.HFile", HFile)
	sym.Register("c07.HIdm", HIdm)
	sym.Register("c07.HDirHist", HDirHist)
	sym.Register("c07.HFaulty", HFaulty)
}

// operand universe: aliasing, boundary and malformed paths
var opPaths = []string{"/", "/w", "/w/a", "/w/a/a", "/w/b", "/w/c", "/w/c/d", "", "w", "/w/a/../b", ".", "..", "/w/a/a/x", "/w/l"}
var opKinds = []string{"root", "dir", "subdir", "file-in-subdir", "file", "missing", "missing-deep", "empty", "relative", "unclean", "dot", "dotdot", "below-file", "symlink"}

// NumPaths is the size of the operand universe.
const NumPaths = 14

// VFS methods exercised by HVFS.
var vfsMethods = []string{
	"Chdir", "Chmod", "Chown", "Chtimes", "Create", "CreateTemp", "EvalSymlinks", "Glob", "Lchown", "Link",
	"Lstat", "Mkdir", "MkdirAll", "MkdirTemp", "Open", "OpenFile", "ReadDir", "ReadFile", "Readlink", "Remove",
	"RemoveAll", "Rename", "Stat", "Sub", "Symlink", "Truncate", "WalkDir", "WriteFile", "Abs", "SetUMask",
	"Getwd", "Rel", "Match", "Split", "Base", "Dir", "Clean", "Join", "IsAbs", "SetUserByName",
	"TempDir", "ToSysStat", "SameFile",
}

// NumVFSMethods is len(vfsMethods).
const NumVFSMethods = 43

func twoPath(m string) bool {
	return m == "Link" || m == "Rename" || m == "Symlink" || m == "Rel" || m == "Match"
}

func seed(v avfs.VFS, kind int) {
	hx.Must(v.MkdirAll("/w/a", 0o755))
	hx.Must(v.WriteFile("/w/a/a", []byte("x"), 0o644))
	hx.Must(v.WriteFile("/w/b", []byte("yy"), 0o644))
	if v.HasFeature(avfs.FeatSymlink) {
		hx.Must(v.Symlink("a", "/w/l"))
	}
}

func newFS(kind int) avfs.VFS {
	switch kind {
	case hx.KMem, hx.KOrefa:
		b := hx.NewBase(kind)
		seed(b, kind)
		return b
	}
	// wrappers over a seeded MemFS
	b := hx.NewBase(hx.KMem)
	seed(b, hx.KMem)
	return hx.WrapOver(kind, b)
}

// HVFS: one call of VFS method m on file system kind with every operand (pair)
// of the universe and symbolic scalars, followed by probe calls that would
// hang if the call left a lock held.
func HVFS(kind, m int) {
	v := newFS(kind)
	name := vfsMethods[m]
	pi := sym.Choose("p", NumPaths)
	p := opPaths[pi]
	q, qk := "", ""
	if twoPath(name) {
		qi := sym.Choose("q", NumPaths)
		q = opPaths[qi]
		qk = "," + opKinds[qi]
	}
	label := hx.KindName(kind) + "|" + name + "|" + opKinds[pi] + qk
	sym.Label(label)
	sym.Reach("vfs-call")
	res := sym.Outcome(func() { callVFS(v, name, p, q) })
	sym.Assert(!res.Panicked, "C07|"+label+"|panic|"+res.Class+"|"+res.Site)
	// probes: a lock left held makes one of these hang (engine: DEADLOCK)
	sym.Label(label + "|then-probe")
	res = sym.Outcome(func() {
		_, _ = v.Stat("/w/a/a")
		_, _ = v.ReadDir("/w")
		_, _ = v.Lstat(p)
		_, _ = v.ReadDir("/")
		if f, err := v.Open("/w/b"); err == nil {
			_ = f.Close()
		}
	})
	sym.Assert(!res.Panicked, "C07|"+label+"|then-probe|panic|"+res.Class+"|"+res.Site)
}

func callVFS(v avfs.VFS, name, p, q string) {
	switch name {
	case "Chdir":
		_ = v.Chdir(p)
	case "Chmod":
		_ = v.Chmod(p, fs.FileMode(sym.Uint32("mode")))
	case "Chown":
		_ = v.Chown(p, sym.Int("uid"), sym.Int("gid"))
	case "Chtimes":
		_ = v.Chtimes(p, time.Unix(0, 0), time.Unix(sym.Int64("sec"), 0))
	case "Create":
		f, _ := v.Create(p)
		useFile(f)
	case "CreateTemp":
		f, _ := v.CreateTemp(p, "t*x")
		useFile(f)
	case "EvalSymlinks":
		_, _ = v.EvalSymlinks(p)
	case "Glob":
		_, _ = v.Glob(p + "/*")
	case "Lchown":
		_ = v.Lchown(p, sym.Int("uid"), sym.Int("gid"))
	case "Link":
		_ = v.Link(p, q)
	case "Lstat":
		_, _ = v.Lstat(p)
	case "Mkdir":
		_ = v.Mkdir(p, fs.FileMode(sym.Uint32("perm")))
	case "MkdirAll":
		_ = v.MkdirAll(p, fs.FileMode(sym.Uint32("perm")))
	case "MkdirTemp":
		_, _ = v.MkdirTemp(p, "d*")
	case "Open":
		f, _ := v.Open(p)
		useFile(f)
	case "OpenFile":
		f, _ := v.OpenFile(p, sym.Int("flag"), fs.FileMode(sym.Uint32("perm")))
		useFile(f)
	case "ReadDir":
		_, _ = v.ReadDir(p)
	case "ReadFile":
		_, _ = v.ReadFile(p)
	case "Readlink":
		_, _ = v.Readlink(p)
	case "Remove":
		_ = v.Remove(p)
	case "RemoveAll":
		_ = v.RemoveAll(p)
	case "Rename":
		_ = v.Rename(p, q)
	case "Stat":
		_, _ = v.Stat(p)
	case "Sub":
		s, err := v.Sub(p)
		if err == nil && s != nil {
			_, _ = s.Stat("/")
			_, _ = s.ReadDir("/")
		}
	case "Symlink":
		_ = v.Symlink(p, q)
	case "Truncate":
		_ = v.Truncate(p, sym.Int64("size"))
	case "WalkDir":
		n := 0
		_ = v.WalkDir(p, func(path string, d fs.DirEntry, err error) error {
			n++
			if n > 30 {
				return fs.SkipAll
			}
			return nil
		})
	case "WriteFile":
		_ = v.WriteFile(p, sym.Bytes("data", 2), fs.FileMode(sym.Uint32("perm")))
	case "Abs":
		_, _ = v.Abs(p)
	case "SetUMask":
		_ = v.SetUMask(fs.FileMode(sym.Uint32("mask")))
	case "Getwd":
		_ = v.Chdir(p)
		_, _ = v.Getwd()
	case "Rel":
		_, _ = v.Rel(p, q)
	case "Match":
		_, _ = v.Match(p, q)
	case "Split":
		_, _ = v.Split(p)
	case "Base":
		_ = v.Base(p)
	case "Dir":
		_ = v.Dir(p)
	case "Clean":
		_ = v.Clean(p)
	case "Join":
		_ = v.Join(p, p)
	case "IsAbs":
		_ = v.IsAbs(p)
	case "SetUserByName":
		_ = v.SetUserByName(p)
	case "TempDir":
		_ = v.TempDir()
	case "ToSysStat":
		if fi, err := v.Lstat(p); err == nil {
			st := v.ToSysStat(fi)
			_ = st.Uid()
			_ = st.Nlink()
		}
	case "SameFile":
		fi1, _ := v.Lstat(p)
		fi2, _ := v.Lstat("/w/b")
		_ = v.SameFile(fi1, fi2)
	}
}

// useFile exercises a handle returned by an open-like call, whatever the error was
// (callers are allowed to call methods on a returned handle; package os returns
// a nil *File with an error, whose methods return ErrInvalid).
func useFile(f avfs.File) {
	if f == nil {
		return
	}
	_, _ = f.Stat()
	b := make([]byte, 1)
	_, _ = f.Read(b)
	_, _ = f.Write(b)
	_, _ = f.ReadDir(1)
	_ = f.Sync()
	_ = f.Close()
	_ = f.Close()
}

// File methods exercised by HFile.
var fileMethods = []string{"Chdir", "Chmod", "Chown", "Close", "Fd", "Name", "Read", "ReadAt", "ReadDir", "Readdirnames", "Seek", "Stat", "Sync", "Truncate", "Write", "WriteAt", "WriteString"}

// NumFileMethods is len(fileMethods).
const NumFileMethods = 17

var handleStates = []string{"rdwr", "rdonly", "wronly-append", "dir", "closed", "failed-open", "removed-after-open", "dir-by-relative-name"}

// NumHandleStates is len(handleStates).
const NumHandleStates = 8

func openState(v avfs.VFS, st int) (f avfs.File, err error) {
	switch st {
	case 0:
		f, err = v.OpenFile("/w/b", 2, 0) // O_RDWR
	case 1:
		f, err = v.OpenFile("/w/b", 0, 0)
	case 2:
		f, err = v.OpenFile("/w/b", 1|0x400, 0) // O_WRONLY|O_APPEND
	case 3:
		f, err = v.OpenFile("/w", 0, 0)
	case 4:
		f, err = v.OpenFile("/w/b", 2, 0)
		if f != nil {
			_ = f.Close()
		}
	case 5:
		f, err = v.OpenFile("/w/missing", 0, 0)
	case 6:
		f, err = v.OpenFile("/w/b", 2, 0)
		_ = v.Remove("/w/b")
	case 7:
		_ = v.Chdir("/w")
		f, err = v.OpenFile("a", 0, 0)
	}
	return f, err
}

// HFile: method m on a handle in state st, optionally after a Seek with a
// symbolic offset, with symbolic offsets/sizes/counts; then the handle and the
// file system are probed again.
func HFile(kind, st, m, pre int) {
	v := newFS(kind)
	name := fileMethods[m]
	label := hx.KindName(kind) + "|File." + name + "|" + handleStates[st]
	if pre == 1 {
		label += "|after-seek"
	}
	sym.Label(label + "|open")
	var f avfs.File
	var openErr error
	ores := sym.Outcome(func() { f, openErr = openState(v, st) })
	sym.Assert(!ores.Panicked, "C07|"+hx.KindName(kind)+"|open-handle|"+handleStates[st]+"|panic|"+ores.Class+"|"+ores.Site)
	if ores.Panicked {
		return
	}
	sym.Label(label)
	if f == nil {
		// an untyped nil interface cannot be called at all (harness-level nil): not a library call
		sym.Reach("file-nil-iface")
		return
	}
	sym.Reach("file-call")
	if pre == 1 {
		res := sym.Outcome(func() { _, _ = f.Seek(sym.Int64("off0"), sym.Choose("wh0", 3)) })
		sym.Assert(!res.Panicked, "C07|"+label+"|pre-seek|panic|"+res.Class+"|"+res.Site)
	}
	// File.Name on the nil handle returned by a failed open panics, as in package os
	// (through a read-only file system every open for writing fails)
	sanctioned := name == "Name" && openErr != nil
	res := sym.Outcome(func() { callFile(f, name) })
	if !sanctioned {
		sym.Assert(!res.Panicked, "C07|"+label+"|panic|"+res.Class+"|"+res.Site)
	}
	sym.Label(label + "|then-probe")
	res = sym.Outcome(func() {
		_, _ = f.Stat()
		_, _ = f.Seek(0, 0)
		b := make([]byte, 2)
		_, _ = f.Read(b)
		_, _ = v.Stat("/w/b")
		_, _ = v.ReadFile("/w/b")
		_, _ = v.ReadDir("/w")
		// relative paths resolve from whatever the working directory now is
		_, _ = v.Stat("b")
		_ = v.MkdirAll("p/q", 0o755)
		_, _ = v.Getwd()
		_ = f.Close()
	})
	sym.Assert(!res.Panicked, "C07|"+label+"|then-probe|panic|"+res.Class+"|"+res.Site)
}

// HFaulty: VFS method m through a FailFS whose failure function fails at most
// one consultation, chosen by the solver, with a 600-byte file among the
// operands (larger than the 512-byte first read of ReadFile): the call returns.
func HFaulty(m int) {
	b := hx.NewBase(hx.KMem)
	seed(b, hx.KMem)
	big := make([]byte, 600)
	for i := range big {
		big[i] = byte(i)
	}
	hx.Must(b.WriteFile("/w/big", big, 0o644))
	ff := failfs.New(b)
	fired := 0
	_ = ff.SetFailFunc(func(_ avfs.VFSBase, fn avfs.FnVFS, _ *failfs.FailParam) error {
		if fired == 0 && sym.Bool("fail") {
			fired++
			return errFault
		}
		return nil
	})
	name := vfsMethods[m]
	ops := []string{"/w/big", "/w", "/w/a/a", "/w/c"}
	p := ops[sym.Choose("p", len(ops))]
	q := ""
	if twoPath(name) {
		q = ops[sym.Choose("q", len(ops))]
	}
	label := "failfs-with-fault|" + name
	sym.Label(label)
	sym.Reach("faulty")
	res := sym.Outcome(func() { callVFS(ff, name, p, q) })
	sym.Assert(!res.Panicked, "C07|"+label+"|panic|"+res.Class+"|"+res.Site)
}

var errFault = errors.New("injected fault")

// HDirHist: a history of k steps on one directory handle of /w: each step is
// ReadDir(n) or Readdirnames(n) with a symbolic count, or a namespace call that
// adds or removes an entry of the directory while the handle is open.
func HDirHist(kind, k int) {
	v := newFS(kind)
	f, err := v.OpenFile("/w", 0, 0)
	if err != nil {
		return
	}
	label := hx.KindName(kind) + "|dir-handle-history"
	sym.Reach("dir-history")
	added := 0
	for i := 0; i < k; i++ {
		step := ""
		res := sym.Outcome(func() {
			switch sym.Choose("step", 4) {
			case 0:
				step = "ReadDir"
				n := sym.Int("n")
				sym.Assume(n >= -1 && n <= 3)
				_, _ = f.ReadDir(n)
			case 1:
				step = "Readdirnames"
				n := sym.Int("n")
				sym.Assume(n >= -1 && n <= 3)
				_, _ = f.Readdirnames(n)
			case 2:
				step = "add-entry"
				added++
				_ = v.WriteFile("/w/n"+hx.Itoa(added), nil, 0o644)
				_ = v.Mkdir("/w/d"+hx.Itoa(added), 0o755)
			case 3:
				step = "remove-entry"
				_ = v.Remove("/w/b")
				_ = v.RemoveAll("/w/a")
			}
		})
		sym.Label(label + "|step-" + hx.Itoa(i+1) + "-" + step)
		sym.Assert(!res.Panicked, "C07|"+label+"|"+step+"|panic|"+res.Class+"|"+res.Site)
		if res.Panicked {
			return
		}
	}
	res := sym.Outcome(func() {
		_, _ = f.Stat()
		_, _ = v.ReadDir("/w")
		_ = f.Close()
	})
	sym.Assert(!res.Panicked, "C07|"+label+"|then-probe|panic|"+res.Class+"|"+res.Site)
}

func callFile(f avfs.File, name string) {
	switch name {
	case "Chdir":
		_ = f.Chdir()
	case "Chmod":
		_ = f.Chmod(fs.FileMode(sym.Uint32("mode")))
	case "Chown":
		_ = f.Chown(sym.Int("uid"), sym.Int("gid"))
	case "Close":
		_ = f.Close()
	case "Fd":
		_ = f.Fd()
	case "Name":
		_ = f.Name()
	case "Read":
		b := make([]byte, sym.Choose("n", 3))
		_, _ = f.Read(b)
	case "ReadAt":
		b := make([]byte, sym.Choose("n", 3))
		_, _ = f.ReadAt(b, sym.Int64("off"))
	case "ReadDir":
		_, _ = f.ReadDir(sym.Int("n"))
		_, _ = f.ReadDir(1)
	case "Readdirnames":
		_, _ = f.Readdirnames(sym.Int("n"))
		_, _ = f.Readdirnames(1)
	case "Seek":
		_, _ = f.Seek(sym.Int64("off"), sym.Int("whence"))
	case "Stat":
		_, _ = f.Stat()
	case "Sync":
		_ = f.Sync()
	case "Truncate":
		_ = f.Truncate(sym.Int64("size"))
	case "Write":
		_, _ = f.Write(sym.Bytes("data", sym.Choose("n", 3)))
	case "WriteAt":
		_, _ = f.WriteAt(sym.Bytes("data", sym.Choose("n", 3)), sym.Int64("off"))
	case "WriteString":
		_, _ = f.WriteString(sym.String("s", sym.Choose("n", 3)))
	}
}

var idmMethods = []string{"AddGroup", "AddUser", "DelGroup", "DelUser", "LookupGroup", "LookupGroupId", "LookupUser", "LookupUserId", "AdminUser", "AdminGroup"}

// NumIdmMethods is len(idmMethods).
const NumIdmMethods = 10

// HIdm: every MemIdm method with symbolic names (all bytes) and ids, after a small history.
func HIdm(m, n int) {
	idm := memidm.New()
	_, _ = idm.AddGroup("g")
	_, _ = idm.AddUser("u", "g")
	name := idmMethods[m]
	sym.Label("memidm|" + name)
	sym.Reach("idm-call")
	s := sym.String("name", n)
	s2 := sym.String("group", n)
	res := sym.Outcome(func() {
		switch name {
		case "AddGroup":
			_, _ = idm.AddGroup(s)
		case "AddUser":
			_, _ = idm.AddUser(s, s2)
		case "DelGroup":
			_ = idm.DelGroup(s)
		case "DelUser":
			_ = idm.DelUser(s)
		case "LookupGroup":
			_, _ = idm.LookupGroup(s)
		case "LookupGroupId":
			_, _ = idm.LookupGroupId(sym.Int("id"))
		case "LookupUser":
			_, _ = idm.LookupUser(s)
		case "LookupUserId":
			_, _ = idm.LookupUserId(sym.Int("id"))
		case "AdminUser":
			u := idm.AdminUser()
			_ = u.IsAdmin()
			_ = u.Name()
		case "AdminGroup":
			_ = idm.AdminGroup().Name()
		}
	})
	sym.Assert(!res.Panicked, "C07|memidm|"+name+"|panic|"+res.Class+"|"+res.Site)
	sym.Label("memidm|" + name + "|then-probe")
	res = sym.Outcome(func() {
		_, _ = idm.LookupUser("u")
		_, _ = idm.LookupGroup("g")
		_, _ = idm.AddGroup("z")
	})
	sym.Assert(!res.Panicked, "C07|memidm|"+name+"|then-probe|panic|"+res.Class+"|"+res.Site)
}
