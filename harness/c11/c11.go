// Package c11: a file system obtained with MemFS.Sub(dir) behaves, on
// symlink-free absolute paths, exactly as the parent behaves on the same paths
// prefixed with dir; nothing outside dir is reachable; user, umask and working
// directory of a view are its own.
package c11

import (
	"io/fs"
	"path/filepath"

	"github.com/avfs/avfs"

	"verif/harness/hx"
	"verif/harness/sym"
	"verif/harness/sysx"
)

func init() {
	sym.Register("c11.HView", HView)
	sym.Register("c11.HIsolation", HIsolation)
}

var dirs = []string{"/w", "/w/a", "/", "/w/a/..", "."}

// NumDirs is len(dirs).
const NumDirs = 5

var Ops = []string{"Stat", "Lstat", "ReadDir", "ReadFile", "Mkdir", "MkdirAll", "WriteFile", "Remove", "RemoveAll", "RenameTo", "RenameFrom", "Chmod", "Truncate", "OpenFile", "Link"}

// NumOps is len(Ops).
const NumOps = 15

func seed(v avfs.VFS) {
	hx.Must(v.MkdirAll("/w/a/d", 0o755))
	hx.Must(v.WriteFile("/w/a/f", []byte("x"), 0o644))
	hx.Must(v.WriteFile("/w/b", []byte("yy"), 0o644))
	hx.Must(v.WriteFile("/w/a/d/g", []byte("z"), 0o644))
	hx.Must(v.WriteFile("/o", []byte("outside"), 0o644))
}

func do(v avfs.VFS, op, p, q string, flag int) (int, string) {
	s := sysx.ImplSys{V: v}
	switch op {
	case "Stat":
		st, c := s.Stat(p)
		return c, hx.Itoa(st.Kind)
	case "Lstat":
		st, c := s.Lstat(p)
		return c, hx.Itoa(st.Kind)
	case "ReadDir":
		ns, c := s.ReadDir(p)
		out := ""
		for _, n := range ns {
			out += n + ","
		}
		return c, out
	case "ReadFile":
		b, c := s.ReadFile(p)
		return c, string(b)
	case "Mkdir":
		return s.Mkdir(p, 0o755), ""
	case "MkdirAll":
		return s.MkdirAll(p, 0o755), ""
	case "WriteFile":
		c, c2 := s.OpenWrite(p, 1|0x40|0x200, 0o644, []byte("n"))
		return c, hx.Itoa(c2)
	case "Remove":
		return s.Remove(p), ""
	case "RemoveAll":
		return s.RemoveAll(p), ""
	case "RenameTo":
		return s.Rename(q, p), ""
	case "RenameFrom":
		return s.Rename(p, q), ""
	case "Chmod":
		return s.Chmod(p, 0o600), ""
	case "Truncate":
		return s.Truncate(p, 0), ""
	case "OpenFile":
		c, c2 := s.OpenWrite(p, flag, 0o644, []byte("n"))
		return c, hx.Itoa(c2)
	case "Link":
		return s.Link(q, p), ""
	}
	return 0, ""
}

// HView: operation op with path "/" + n symbolic bytes through the view at
// dirs[di] versus the same operation on the prefixed path on a twin parent.
func HView(di, op, n int) {
	name := Ops[op]
	d := dirs[di]
	p := "/" + sym.String("p", n)
	for i := 1; i < len(p); i++ {
		sym.Assume(p[i] != 0)
	}
	P := hx.NewBareMemFS()
	Q := hx.NewBareMemFS()
	seed(P)
	seed(Q)
	if d == "." {
		// a relative directory is resolved from the working directory of the parent
		hx.Must(P.Chdir("/w"))
		hx.Must(Q.Chdir("/w"))
	}
	V, err := P.Sub(d)
	hx.Must(err)
	cd := filepath.Clean(d)
	if d == "." {
		cd = "/w"
	}
	// "/.." is clamped at the view's root: the twin path is the cleaned path below d
	twin := filepath.Join(cd, filepath.Clean(p))
	if n := len(p); name == "RemoveAll" && (p == "." || n >= 2 && p[n-1] == '.' && p[n-2] == '/') {
		// RemoveAll refuses a path spelled with a final "." (as os.RemoveAll): keep the spelling
		twin += "/."
	}
	// the fixed second operand exists in every view: its first file
	qv := map[string]string{"/w": "/b", "/w/a": "/f", "/": "/o"}[cd]
	qt := filepath.Join(cd, qv)
	flag := 0
	if name == "OpenFile" {
		flag = sym.Int("flag") & (3 | 0x40 | 0x80 | 0x200 | 0x400)
		sym.Assume(flag&3 != 3)
	}
	label := "memfs|Sub(" + d + ")|" + name
	sym.Label(label)
	switch name {
	case "Remove", "RemoveAll", "RenameTo", "RenameFrom":
		// removing or renaming the view's own root through the view is refused as for
		// any root directory (a chroot cannot remove its root): outside the comparison
		sym.Assume(filepath.Clean(p) != "/")
	}
	sym.Reach("view")
	var cv int
	var rv string
	res := sym.Outcome(func() { cv, rv = do(V, name, p, qv, flag) })
	sym.Assert(!res.Panicked, "C11|"+label+"|panic|"+res.Class+"|"+res.Site)
	ct, rt := do(Q, name, twin, qt, flag)
	sym.Observe("view", cv)
	sym.Observe("twin", ct)
	sym.Assert(cv == ct, "C11|"+label+"|errno|view-"+hx.CodeName(cv)+"|parent-"+hx.CodeName(ct))
	sym.Assert(rv == rt, "C11|"+label+"|result")
	sym.Assert(hx.Snapshot(P, "/", false) == hx.Snapshot(Q, "/", false), "C11|"+label+"|tree-differs-from-twin-parent")
	// what the view itself shows equals the subtree of the twin
	for _, x := range []string{"/", "/a", "/a/f", "/a/d", "/a/d/g", "/b", "/f", "/d", "/d/g", "/w", "/w/a", "/w/b", "/o", filepath.Clean(p)} {
		sym.Assert(entry(V, x) == entry(Q, filepath.Join(cd, x)), "C11|"+label+"|view-does-not-show-the-subtree")
	}
}

// entry renders what is observable at one path.
func entry(v avfs.VFS, p string) string {
	s := sysx.ImplSys{V: v}
	st, c := s.Lstat(p)
	if c != 0 {
		return "!" + hx.CodeName(c)
	}
	out := hx.Itoa(st.Kind) + "," + hx.Itoa(int(st.Perm)) + "," + hx.Itoa(st.Uid)
	if st.Kind == 1 {
		ns, _ := s.ReadDir(p)
		for _, n := range ns {
			out += "," + n
		}
		return out
	}
	b, _ := s.ReadFile(p)
	return out + "," + hx.Itoa(st.Nlink) + ":" + string(b)
}

// HIsolation: setting user, umask and working directory of a view changes
// neither the parent nor a sibling view; tree changes are visible to all.
func HIsolation(di int) {
	P := hx.NewBareMemFS()
	seed(P)
	if dirs[di] == "." {
		hx.Must(P.Chdir("/w"))
	} else {
		hx.Must(P.Chdir("/w/a"))
	}
	sym.Label("memfs|Sub(" + dirs[di] + ")|isolation")
	// creating a view leaves the settings of the file system it is created from alone
	pu0, pm0 := P.User().Uid(), P.UMask()
	pwd0, _ := P.Getwd()
	V, err := P.Sub(dirs[di])
	hx.Must(err)
	S, err := P.Sub("/w")
	hx.Must(err)
	sym.Reach("isolation")
	pu, pm := P.User().Uid(), P.UMask()
	pwd, _ := P.Getwd()
	sym.Assert(pu == pu0 && pm == pm0 && pwd == pwd0, "C11|isolation|parent-changed-by-creating-a-view")
	// ... nor those of a view a nested view is created from
	hx.Must(S.Chdir("/a"))
	swd0, _ := S.Getwd()
	_, nerr := S.Sub("/a")
	swd1, _ := S.Getwd()
	sym.Assert(nerr == nil && swd1 == swd0, "C11|isolation|view-changed-by-creating-a-nested-view")
	su, sm := S.User().Uid(), S.UMask()
	swd, _ := S.Getwd()
	mask := sym.Uint32("umask") & 0o777
	uid := sym.Int("uid") & 0xFFFF
	_ = V.SetUser(&sysx.User{N: "u", UID: uid, GID: uid})
	_ = V.SetUMask(fsMode(mask))
	_ = V.Chdir("/")
	cdir := filepath.Clean(dirs[di])
	if dirs[di] == "." {
		cdir = "/w"
	}
	if cdir == "/w" || cdir == "/" {
		_ = V.Chdir(map[string]string{"/w": "/a", "/": "/w"}[cdir])
	}
	sym.Assert(V.User().Uid() == uid && V.UMask() == fsMode(mask), "C11|isolation|view-does-not-keep-its-own-settings")
	pwd2, _ := P.Getwd()
	swd2, _ := S.Getwd()
	sym.Assert(P.User().Uid() == pu && P.UMask() == pm && pwd2 == pwd, "C11|isolation|parent-changed-by-view")
	sym.Assert(S.User().Uid() == su && S.UMask() == sm && swd2 == swd, "C11|isolation|sibling-changed-by-view")
	// a change made through the parent is visible through the views at once
	hx.Must(P.WriteFile("/w/a/new", []byte("n"), 0o666))
	_ = V.SetUser(P.User())
	in := map[string]string{"/w": "/a/new", "/w/a": "/new", "/": "/w/a/new"}[cdir]
	_, e1 := V.Stat(in)
	_, e2 := S.Stat("/a/new")
	sym.Assert(e1 == nil && e2 == nil, "C11|isolation|change-through-parent-not-visible-in-view")
	// files created through the view and through the parent are different files;
	// two names of one file are the same file whichever side looks
	hx.Must(V.WriteFile(map[string]string{"/w": "/v1", "/w/a": "/v1", "/": "/w/v1"}[cdir], []byte("v"), 0o666))
	hx.Must(P.WriteFile("/w/p1", []byte("p"), 0o666))
	viaView := map[string]string{"/w": "/w/v1", "/w/a": "/w/a/v1", "/": "/w/v1"}[cdir]
	f1, s1 := P.Stat(viaView)
	f2, s2 := P.Stat("/w/p1")
	f0, s0 := P.Stat("/w/a/new")
	sym.Assert(s0 == nil && s1 == nil && s2 == nil && !P.SameFile(f1, f2) && !P.SameFile(f0, f1) && !P.SameFile(f0, f2), "C11|isolation|unrelated-files-created-through-view-and-parent-are-SameFile")
	hx.Must(P.Link("/w/p1", "/w/p2"))
	f3, s3 := P.Stat("/w/p2")
	sym.Assert(s3 == nil && P.SameFile(f2, f3), "C11|isolation|hard-links-not-SameFile")
}

func fsMode(m uint32) fs.FileMode { return fs.FileMode(m) }
