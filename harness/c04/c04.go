// Package c04: symbolic links of MemFS resolve as the kernel resolves them
// (posixref's path walk; validated against the kernel inside a chroot natively).
package c04

import (
	"path/filepath"

	"verif/harness/hx"
	"verif/harness/posix"
	"verif/harness/sym"
	"verif/harness/sysx"
)

func init() {
	sym.Register("c04.HChain", HChain)
	sym.Register("c04.HLink", HLink)
}

// Queries through and on the links.
var Ops = []string{"Stat", "Lstat", "ReadFile", "ReadDir", "Chmod", "Truncate", "MkdirBelow", "EvalSymlinks", "Readlink", "Remove", "Rename", "Lchown", "Link", "OpenCreate", "RenameOnto"}

// NumOps is len(Ops).
const NumOps = 15

// query paths through the link names c and a/c
var queries = []string{"/w/c", "/w/c/a", "/w/a/c", "/w/a/c/a", "/w/c/c", "/w/c/b"}

// NumQueries is len(queries).
const NumQueries = 6

type evaler interface {
	EvalSymlinks(p string) (string, int)
}

type world interface {
	sysx.Sys
	evaler
}

// HLink: base tree {a/ , a/a = "x", b = "yy"}; links symbolic links with
// symbolic target strings of n1 (and n2) bytes (every byte value but NUL) at
// /w/c (and /w/a/c); one operation on a query path through those names.
func HLink(op, links, n1, n2 int) {
	name := Ops[op]
	t1 := sym.String("t1", n1)
	for i := 0; i < len(t1); i++ {
		sym.Assume(t1[i] != 0)
	}
	t2 := ""
	if links == 2 {
		t2 = sym.String("t2", n2)
		for i := 0; i < len(t2); i++ {
			sym.Assume(t2[i] != 0)
		}
	}
	// the property grants lexical cleaning of the stored target: the reference
	// worlds are given the cleaned target
	c1 := filepath.Clean(t1)
	c2 := filepath.Clean(t2)
	v := hx.NewBareMemFS()
	impl := world(sysx.ImplSys{V: v})
	model := world(sysx.ModelSys{F: posix.New()})
	var kern *sysx.KernelSys
	if sym.Native() {
		kern = sysx.NewKernelChroot()
		defer kern.Done()
	}
	build := func(w sysx.Sys, a, b string) {
		must(w.MkdirAll("/w/a", 0o755))
		c, c2 := w.OpenWrite("/w/a/a", 1|0x40|0x200, 0o644, []byte("x"))
		must(c)
		must(c2)
		c, c2 = w.OpenWrite("/w/b", 1|0x40|0x200, 0o644, []byte("yy"))
		must(c)
		must(c2)
		// siblings whose names extend the name of a link's directory (/w -> /wb, a -> ab)
		must(w.MkdirAll("/wb", 0o755))
		c, c2 = w.OpenWrite("/wb/a", 1|0x40|0x200, 0o644, []byte("wb"))
		must(c)
		must(c2)
		must(w.Mkdir("/w/ab", 0o755))
		c, c2 = w.OpenWrite("/w/ab/a", 1|0x40|0x200, 0o644, []byte("ab"))
		must(c)
		must(c2)
		must(w.Symlink(a, "/w/c"))
		if links == 2 {
			must(w.Symlink(b, "/w/a/c"))
		}
	}
	build(impl, t1, t2)
	build(model, c1, c2)
	if kern != nil {
		build(kern, c1, c2)
	}
	q := queries[sym.Choose("q", NumQueries)]
	label := "memfs|" + name + "|" + q
	sym.Label(label)
	sym.Reach("query")
	do := func(w world) (int, string) {
		switch name {
		case "Stat":
			st, c := w.Stat(q)
			if st.Kind != posix.KFile {
				return c, hx.Itoa(st.Kind)
			}
			return c, hx.Itoa(st.Kind) + "," + hx.Itoa(int(st.Size))
		case "Lstat":
			st, c := w.Lstat(q)
			return c, hx.Itoa(st.Kind)
		case "ReadFile":
			b, c := w.ReadFile(q)
			return c, string(b)
		case "ReadDir":
			ns, c := w.ReadDir(q)
			out := ""
			for _, n := range ns {
				out += n + ","
			}
			return c, out
		case "Chmod":
			return w.Chmod(q, 0o600), ""
		case "Truncate":
			return w.Truncate(q, 1), ""
		case "MkdirBelow":
			return w.Mkdir(q+"/n", 0o755), ""
		case "EvalSymlinks":
			r, c := w.EvalSymlinks(q)
			return c, r
		case "Readlink":
			r, c := w.Readlink(q)
			return c, r
		case "Remove":
			return w.Remove(q), ""
		case "Rename":
			return w.Rename(q, "/w/z"), ""
		case "Lchown":
			return w.Lchown(q, 7, 8), ""
		case "Link":
			return w.Link(q, "/w/z"), ""
		case "RenameOnto":
			// the link itself is replaced, never followed
			return w.Rename("/w/b", q), ""
		case "OpenCreate":
			c, c2 := w.OpenWrite(q, 1|0x40, 0o644, []byte("n"))
			return c, hx.Itoa(c2)
		}
		return 0, ""
	}
	var ci int
	var ri string
	res := sym.Outcome(func() { ci, ri = do(impl) })
	sym.Assert(!res.Panicked, "C04|"+label+"|panic|"+res.Class+"|"+res.Site)
	if res.Panicked {
		return
	}
	cm, rm := do(model)
	if kern != nil {
		ck, rk := do(kern)
		sym.Assert(ck == cm && rk == rm, "ORACLE|"+label+"|kernel-"+hx.CodeName(ck)+"|model-"+hx.CodeName(cm))
	}
	sym.Observe("impl", ci)
	if ci != cm {
		sym.Assert(false, "C04|"+label+"|errno|got-"+hx.CodeName(ci)+"|want-"+hx.CodeName(cm)+"|"+shape(model, q))
		return
	}
	if ri != rm {
		sym.Assert(false, "C04|"+label+"|result|"+shape(model, q))
		return
	}
	// which object was reached: the observable state of every name
	for _, p := range []string{"/w/a", "/w/a/a", "/w/b", "/w/c", "/w/a/c", "/w/z", "/w/a/n", "/w/n", "/w/a/a/n", "/wb/a", "/w/ab/a", "/w/ab", "/wb"} {
		si, c1 := impl.Lstat(p)
		sm, c2 := model.Lstat(p)
		if c1 == 0 && c2 == 0 && si.Kind == posix.KFile && sm.Kind == posix.KFile {
			bi, _ := impl.ReadFile(p)
			bm, _ := model.ReadFile(p)
			if string(bi) != string(bm) {
				sym.Assert(false, "C04|"+label+"|effect-on-other-object|"+shape(model, q))
				return
			}
		}
		if c1 != c2 || c1 == 0 && (si.Kind != sm.Kind || si.Perm != sm.Perm && si.Kind != posix.KLink || si.Uid != sm.Uid || si.Kind == posix.KFile && (si.Size != sm.Size || si.Nlink != sm.Nlink)) {
			sym.Assert(false, "C04|"+label+"|effect-on-other-object|"+shape(model, q))
			return
		}
		if kern != nil {
			sk, c3 := kern.Lstat(p)
			sym.Assert(c3 == c2 && (c2 != 0 || sk.Kind == sm.Kind && (sk.Perm == sm.Perm || sk.Kind == posix.KLink) && sk.Uid == sm.Uid), "ORACLE|"+label+"|state")
		}
	}
}

// shape classifies what the first link resolves to in the model (computed on the failing side only).
func shape(m world, q string) string {
	t, e := m.Readlink("/w/c")
	if e != 0 {
		return "no-link"
	}
	s := "rel"
	if len(t) > 0 && t[0] == '/' {
		s = "abs"
	}
	st, e := m.Stat("/w/c")
	switch {
	case e == hx.ELOOP:
		s += "-loop"
	case e != 0:
		s += "-dangling"
	case st.Kind == posix.KDir:
		s += "-to-dir"
	default:
		s += "-to-file"
	}
	return s
}

func must(c int) {
	if c != 0 {
		panic("setup failed: " + hx.CodeName(c))
	}
}

// HChain: a chain of L symbolic links /w/l1 -> l2 -> ... -> lL -> a/a (L chosen
// by the solver in lo..hi, around the kernel's limit of 40 links per walk), the
// chain entered directly (/w/l1) or below a linked directory; every
// link-following call answers as the model (natively: as the kernel).
func HChain(lo, hi int) {
	L := sym.Int("L")
	sym.Assume(L >= lo && L <= hi)
	L = sym.Concretize(L)
	v := hx.NewBareMemFS()
	impl := world(sysx.ImplSys{V: v})
	model := world(sysx.ModelSys{F: posix.New()})
	var kern *sysx.KernelSys
	if sym.Native() {
		kern = sysx.NewKernelChroot()
		defer kern.Done()
	}
	build := func(w sysx.Sys) {
		must(w.MkdirAll("/w/a", 0o755))
		c, c2 := w.OpenWrite("/w/a/a", 1|0x40|0x200, 0o644, []byte("x"))
		must(c)
		must(c2)
		for i := 1; i <= L; i++ {
			t := "l" + hx.Itoa(i+1)
			if i == L {
				t = "a/a"
			}
			must(w.Symlink(t, "/w/l"+hx.Itoa(i)))
		}
		must(w.Symlink("/w", "/w/a/up"))
	}
	build(impl)
	build(model)
	if kern != nil {
		build(kern)
	}
	entries := []string{"/w/l1", "/w/l2", "/w/a/up/l1", "/w/a/up/l3"}
	ei := sym.Choose("entry", len(entries))
	q := entries[ei]
	opn := []string{"Stat", "ReadFile", "EvalSymlinks", "Chmod", "Truncate", "OpenCreate"}[sym.Choose("op", 6)]
	label := "memfs|" + opn + "|chain|" + []string{"from-first-link", "from-second-link", "below-linked-dir-from-first", "below-linked-dir-from-third"}[ei]
	sym.Label(label)
	sym.Reach("chain")
	do := func(w world) int {
		switch opn {
		case "Stat":
			_, c := w.Stat(q)
			return c
		case "ReadFile":
			_, c := w.ReadFile(q)
			return c
		case "EvalSymlinks":
			_, c := w.EvalSymlinks(q)
			if c != 0 {
				c = 1 // the error value of EvalSymlinks is not an errno; compare success/failure
			}
			return c
		case "Chmod":
			return w.Chmod(q, 0o600)
		case "Truncate":
			return w.Truncate(q, 0)
		}
		c, _ := w.OpenWrite(q, 1|0x40, 0o644, nil)
		return c
	}
	var ci int
	res := sym.Outcome(func() { ci = do(impl) })
	sym.Assert(!res.Panicked, "C04|"+label+"|panic|"+res.Class+"|"+res.Site)
	cm := do(model)
	if kern != nil {
		ck := do(kern)
		sym.Assert(ck == cm, "ORACLE|"+label+"|links-"+hx.Itoa(L)+"|kernel-"+hx.CodeName(ck)+"|model-"+hx.CodeName(cm))
	}
	sym.Observe("L", L)
	sym.Observe("impl", ci)
	sym.Observe("model", cm)
	sym.Assert(ci == cm, "C04|"+label+"|errno|got-"+hx.CodeName(ci)+"|want-"+hx.CodeName(cm))
}
