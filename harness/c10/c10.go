// Package c10: BasePathFS rooted at B confines all access to B and behaves as a
// standalone file system whose root holds B's content; returned paths and error
// fields are expressed in the virtual namespace.
package c10

import (
	"io/fs"
	"os"
	"path/filepath"

	"github.com/avfs/avfs"
	"github.com/avfs/avfs/vfs/basepathfs"

	"verif/harness/hx"
	"verif/harness/sym"
	"verif/harness/sysx"
)

func init() {
	sym.Register("c10.HAfterChdir", HAfterChdir)
	sym.Register("c10.HCall", HCall)
	sym.Register("c10.HNames", HNames)
	sym.Register("c10.HSpelling", HSpelling)
}

const B = "/w/a"

var Ops = []string{"Stat", "Lstat", "ReadDir", "ReadFile", "Mkdir", "MkdirAll", "WriteFile", "Remove", "RemoveAll", "RenameTo", "RenameFrom", "Chmod", "Truncate", "OpenFile", "Link", "Glob", "Chdir", "WalkDir"}

// NumOps is len(Ops).
const NumOps = 18

func seedBase(v avfs.VFS) {
	hx.Must(v.MkdirAll("/w/a/d", 0o755))
	hx.Must(v.WriteFile("/w/a/f", []byte("x"), 0o644))
	hx.Must(v.WriteFile("/w/a/d/g", []byte("z"), 0o644))
	hx.Must(v.WriteFile("/w/b", []byte("secret"), 0o644))
	hx.Must(v.WriteFile("/o", []byte("outside"), 0o644))
}

func seedStandalone(v avfs.VFS) {
	hx.Must(v.MkdirAll("/d", 0o755))
	hx.Must(v.WriteFile("/f", []byte("x"), 0o644))
	hx.Must(v.WriteFile("/d/g", []byte("z"), 0o644))
}

// errPaths extracts the path fields embedded in an error.
func errPaths(err error) []string {
	switch e := err.(type) {
	case *fs.PathError:
		return []string{e.Path}
	case *os.LinkError:
		return []string{e.Old, e.New}
	}
	return nil
}

func do(v avfs.VFS, op, p, q string, flag int) (code int, result string, err error) {
	switch op {
	case "Stat":
		fi, e := v.Stat(p)
		if e == nil {
			result = fi.Name()
		}
		return hx.Code(e), result, e
	case "Lstat":
		fi, e := v.Lstat(p)
		if e == nil {
			result = fi.Name()
		}
		return hx.Code(e), result, e
	case "ReadDir":
		es, e := v.ReadDir(p)
		for _, x := range es {
			result += x.Name() + ","
		}
		return hx.Code(e), result, e
	case "ReadFile":
		b, e := v.ReadFile(p)
		return hx.Code(e), string(b), e
	case "Mkdir":
		e := v.Mkdir(p, 0o755)
		return hx.Code(e), "", e
	case "MkdirAll":
		e := v.MkdirAll(p, 0o755)
		return hx.Code(e), "", e
	case "WriteFile":
		e := v.WriteFile(p, []byte("n"), 0o644)
		return hx.Code(e), "", e
	case "Remove":
		e := v.Remove(p)
		return hx.Code(e), "", e
	case "RemoveAll":
		e := v.RemoveAll(p)
		return hx.Code(e), "", e
	case "RenameTo":
		e := v.Rename(q, p)
		return hx.Code(e), "", e
	case "RenameFrom":
		e := v.Rename(p, q)
		return hx.Code(e), "", e
	case "Chmod":
		e := v.Chmod(p, 0o600)
		return hx.Code(e), "", e
	case "Truncate":
		e := v.Truncate(p, 0)
		return hx.Code(e), "", e
	case "OpenFile":
		f, e := v.OpenFile(p, flag, 0o644)
		if e == nil {
			result = f.Name()
			_, _ = f.Write([]byte("n"))
			_ = f.Close()
		}
		return hx.Code(e), result, e
	case "Link":
		e := v.Link(q, p)
		return hx.Code(e), "", e
	case "Glob":
		ms, e := v.Glob(p)
		for _, m := range ms {
			result += m + ","
		}
		return hx.Code(e), result, e
	case "WalkDir":
		// every visit with the path given to the callback and, when the walk
		// reports an error there, the paths that error embeds
		e := v.WalkDir(p, func(path string, _ fs.DirEntry, werr error) error {
			result += path
			for _, ep := range errPaths(werr) {
				// compared as clean absolute paths, like the error paths of the other operations
				a, _ := v.Abs(ep)
				result += "!" + a
			}
			result += ";"
			return nil
		})
		return hx.Code(e), result, e
	case "Chdir":
		e := v.Chdir(p)
		if e == nil {
			wd, _ := v.Getwd()
			result = wd
			_, e2 := v.Stat("f")
			result += "," + hx.CodeName(hx.Code(e2))
		}
		return hx.Code(e), result, e
	}
	return 0, "", nil
}

func entry(v avfs.VFS, p string) string {
	s := sysx.ImplSys{V: v}
	st, c := s.Lstat(p)
	if c != 0 {
		return "!" + hx.CodeName(c)
	}
	out := hx.Itoa(st.Kind) + "," + hx.Itoa(int(st.Perm))
	if st.Kind == 1 {
		ns, _ := s.ReadDir(p)
		for _, n := range ns {
			out += "," + n
		}
		return out
	}
	b, _ := s.ReadFile(p)
	return out + "," + hx.Itoa(st.Nlink) + ":" + string(b)
}

func absAll(v avfs.VFS, ps []string) []string {
	out := make([]string, len(ps))
	for i, p := range ps {
		out[i], _ = v.Abs(p)
	}
	return out
}

func eqStr(a, b []string) bool {
	if len(a) != len(b) {
		return false
	}
	for i := range a {
		if a[i] != b[i] {
			return false
		}
	}
	return true
}

func hasPrefix(s, p string) bool { return len(s) >= len(p) && s[:len(p)] == p }

// HCall: one operation with a symbolic path (absolute when abs==1, relative
// otherwise) through BasePathFS(MemFS, /w/a) and on a standalone MemFS whose
// root holds /w/a's content.
func HCall(op, abs, n int) {
	name := Ops[op]
	p := sym.String("p", n)
	for i := 0; i < len(p); i++ {
		sym.Assume(p[i] != 0)
	}
	if abs == 1 {
		p = "/" + p
	}
	base := hx.NewBareMemFS()
	seedBase(base)
	V := basepathfs.New(base, B)
	S := hx.NewBareMemFS()
	// the standalone reference starts without /w
	_ = S.RemoveAll("/w")
	seedStandalone(S)
	flag := 0
	if name == "OpenFile" {
		flag = sym.Int("flag") & (3 | 0x40 | 0x200)
		sym.Assume(flag&3 != 3)
	}
	kindOfPath := "relative"
	if abs == 1 {
		kindOfPath = "absolute"
	}
	label := "basepathfs|" + name + "|" + kindOfPath
	sym.Label(label)
	sym.Reach("call")
	outside := func() string {
		return entry(base, "/o") + ";" + entry(base, "/w/b") + ";" + entry(base, "/w") + ";" + entry(base, "/")
	}
	before := outside()
	var cv int
	var rv string
	var ev error
	res := sym.Outcome(func() { cv, rv, ev = do(V, name, p, "/f", flag) })
	sym.Assert(!res.Panicked, "C10|"+label+"|panic|"+res.Class+"|"+res.Site)
	// confinement: nothing outside B changed, whatever happened
	sym.Assert(outside() == before, "C10|"+label+"|something-outside-the-base-directory-changed")
	if res.Panicked {
		return
	}
	cs, rs, es := do(S, name, p, "/f", flag)
	sym.Observe("wrapper", cv)
	sym.Observe("standalone", cs)
	sym.Assert(cv == cs, "C10|"+label+"|errno|wrapper-"+hx.CodeName(cv)+"|standalone-"+hx.CodeName(cs))
	sym.Assert(rv == rs, "C10|"+label+"|result-differs-from-standalone")
	// paths embedded in errors name, in the virtual namespace, what the standalone
	// file system's error names (compared as absolute clean paths)
	if cv == cs && cv != 0 {
		sym.Assert(eqStr(absAll(S, errPaths(ev)), absAll(S, errPaths(es))), "C10|"+label+"|error-path-names-another-file-than-on-standalone")
	}
	// paths embedded in errors are virtual: they never reveal B
	for _, ep := range errPaths(ev) {
		sym.Assert(!hasPrefix(ep, B), "C10|"+label+"|error-reveals-base-path")
	}
	sym.Assert(!hasPrefix(rv, B), "C10|"+label+"|result-reveals-base-path")
	for _, x := range []string{"/", "/f", "/d", "/d/g", "/n", "/w", "/o"} {
		sym.Assert(entry(V, x) == entry(S, x), "C10|"+label+"|tree-differs-from-standalone")
	}
}

// HAfterChdir: Chdir("/d") through the wrapper (and on the standalone
// reference), then one operation with a RELATIVE symbolic path.
func HAfterChdir(op, n int) {
	name := Ops[op]
	p := sym.String("p", n)
	for i := 0; i < len(p); i++ {
		sym.Assume(p[i] != 0)
	}
	sym.Assume(len(p) == 0 || p[0] != '/')
	base := hx.NewBareMemFS()
	seedBase(base)
	V := basepathfs.New(base, B)
	S := hx.NewBareMemFS()
	_ = S.RemoveAll("/w")
	seedStandalone(S)
	hx.Must(V.Chdir("/d"))
	hx.Must(S.Chdir("/d"))
	sym.Assume(len(p) > 0)
	// where the relative path leads, lexically, from the working directory /d
	cl := filepath.Clean("/d/" + p)
	class := "above-cwd"
	switch {
	case cl == "/d":
		class = "names-cwd"
	case len(cl) > 3 && cl[:3] == "/d/":
		class = "below-cwd"
	}
	label := "basepathfs|" + name + "|relative-after-chdir:" + class
	sym.Label(label)
	sym.Reach("after-chdir")
	outside := func() string {
		return entry(base, "/o") + ";" + entry(base, "/w/b") + ";" + entry(base, "/w") + ";" + entry(base, "/")
	}
	before := outside()
	var cv int
	var rv string
	res := sym.Outcome(func() { cv, rv, _ = do(V, name, p, "/f", 0) })
	sym.Assert(!res.Panicked, "C10|"+label+"|panic|"+res.Class+"|"+res.Site)
	sym.Assert(outside() == before, "C10|"+label+"|something-outside-the-base-directory-changed")
	if res.Panicked {
		return
	}
	cs, rs, _ := do(S, name, p, "/f", 0)
	sym.Observe("wrapper", cv)
	sym.Assert(cv == cs, "C10|"+label+"|errno|wrapper-"+hx.CodeName(cv)+"|standalone-"+hx.CodeName(cs))
	sym.Assert(rv == rs, "C10|"+label+"|result-differs-from-standalone")
	for _, x := range []string{"/", "/f", "/d", "/d/g", "/d/n", "/n"} {
		sym.Assert(entry(V, x) == entry(S, x), "C10|"+label+"|tree-differs-from-standalone")
	}
}

// HNames: Getwd, Abs, File.Name, TempDir never panic and stay in the virtual namespace.
func HNames(n int) {
	base := hx.NewBareMemFS()
	seedBase(base)
	V := basepathfs.New(base, B)
	p := sym.String("p", n)
	for i := 0; i < len(p); i++ {
		sym.Assume(p[i] != 0)
	}
	sym.Label("basepathfs|names")
	sym.Reach("names")
	var wd, ab, fn string
	res := sym.Outcome(func() {
		wd, _ = V.Getwd()
		ab, _ = V.Abs(p)
		if f, err := V.Open("/f"); err == nil {
			fn = f.Name()
			_ = f.Close()
		}
	})
	sym.Assert(!res.Panicked, "C10|basepathfs|names|panic|"+res.Class+"|"+res.Site)
	if res.Panicked {
		return
	}
	sym.Assert(!hasPrefix(wd, B) && !hasPrefix(ab, B) && !hasPrefix(fn, B), "C10|basepathfs|names|reveals-base-path")
	sym.Assert(fn == "/f", "C10|basepathfs|names|File.Name")
}

// HSpelling: the base directory given relative to the base file system's
// working directory (spell 1) or unclean (2) yields the same wrapper as the
// absolute clean spelling: after Chdir("/d") through the wrapper, one operation
// with a symbolic path (absolute when abs==1) has the same outcome, result and
// effect on twin base file systems, inside and outside B.
func HSpelling(op, abs, n, spell int) {
	name := Ops[op]
	p := sym.String("p", n)
	for i := 0; i < len(p); i++ {
		sym.Assume(p[i] != 0)
	}
	if abs == 1 {
		p = "/" + p
	}
	b0 := hx.NewBareMemFS()
	b1 := hx.NewBareMemFS()
	seedBase(b0)
	seedBase(b1)
	given := "a"
	if spell == 2 {
		given = "/w/./a/../a/"
	} else {
		hx.Must(b1.Chdir("/w"))
	}
	V0 := basepathfs.New(b0, B)
	V1 := basepathfs.New(b1, given)
	label := "basepathfs|" + name + "|" + []string{"", "base-given-relative", "base-given-unclean"}[spell]
	sym.Label(label)
	sym.Reach("spelling")
	e0 := V0.Chdir("/d")
	e1 := V1.Chdir("/d")
	sym.Assert(hx.Code(e0) == hx.Code(e1), "C10|"+label+"|Chdir-outcome-depends-on-spelling-of-base")
	var c0, c1 int
	var r0, r1 string
	res0 := sym.Outcome(func() { c0, r0, _ = do(V0, name, p, "/f", 0) })
	res1 := sym.Outcome(func() { c1, r1, _ = do(V1, name, p, "/f", 0) })
	sym.Observe("abs", c0)
	sym.Observe("other", c1)
	sym.Assert(res0.Panicked == res1.Panicked && c0 == c1 && r0 == r1, "C10|"+label+"|outcome-depends-on-spelling-of-base")
	same := true
	for _, x := range []string{"/", "/o", "/w", "/w/b", "/w/a", "/w/a/f", "/w/a/d", "/w/a/d/g", "/w/a/n", "/w/a/d/n"} {
		same = same && entry(b0, x) == entry(b1, x)
	}
	sym.Assert(same, "C10|"+label+"|effect-on-base-depends-on-spelling-of-base")
}
