// Package all links every harness package into the native runner.
package all

import (
	_ "verif/harness/c02"
	_ "verif/harness/c07"
	_ "verif/harness/c13"
)
