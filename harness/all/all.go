// Package all links every harness package into the native runner.
package all

import (
	_ "verif/harness/c01"
	_ "verif/harness/c02"
	_ "verif/harness/c03"
	_ "verif/harness/c04"
	_ "verif/harness/c05"
	_ "verif/harness/c06"
	_ "verif/harness/c07"
	_ "verif/harness/c08"
	_ "verif/harness/c09"
	_ "verif/harness/c10"
	_ "verif/harness/c11"
	_ "verif/harness/c12"
	_ "verif/harness/c13"
	_ "verif/harness/c14"
	_ "verif/harness/c15"
	_ "verif/harness/c16"
)
