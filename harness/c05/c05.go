// Package c05: after any call, successful or failed, the namespace is a
// well-formed tree with exact link counts; a failed call has no effect and a
// successful one changes only the entries it names. Checked through the public
// API only (WalkDir-style traversal with ReadDir, Lstat, SameFile, ToSysStat).
package c05

import (
	"io/fs"

	"github.com/avfs/avfs"

	"verif/harness/hx"
	"verif/harness/sym"
	"verif/harness/sysx"
)

func init() {
	sym.Register("c05.HInv", HInv)
	sym.Register("c05.HInv2", HInv2)
}

// operands biased to aliasing: the root, ancestors and descendants, identical, missing, below a file
var universe = []string{"/", "/w", "/w/a", "/w/b", "/w/a/a", "/w/a/b", "/w/c", "/w/c/a", "/w/a/a/x"}

// NumPaths is len(universe).
const NumPaths = 9

var Ops = []string{"Mkdir", "MkdirAll", "Create", "WriteFile", "Remove", "RemoveAll", "Rename", "Link", "Symlink", "Truncate", "Chmod", "OpenFile"}

// NumOps is len(Ops).
const NumOps = 12

func twoPath(o string) bool { return o == "Rename" || o == "Link" || o == "Symlink" }

type node struct {
	path string
	fi   fs.FileInfo
}

// walk lists the tree from root through ReadDir; ok=false when the budget is exceeded (cycle or endless tree).
func walk(v avfs.VFS, root string, out *[]node, budget *int) bool {
	*budget--
	if *budget < 0 {
		return false
	}
	fi, err := v.Lstat(root)
	if err != nil {
		return true
	}
	*out = append(*out, node{root, fi})
	if !fi.IsDir() {
		return true
	}
	es, err := v.ReadDir(root)
	if err != nil {
		return true
	}
	for _, e := range es {
		p := root + "/" + e.Name()
		if root == "/" {
			p = "/" + e.Name()
		}
		if !walk(v, p, out, budget) {
			return false
		}
	}
	return true
}

func entry(v avfs.VFS, fi fs.FileInfo, p string) string {
	st := v.ToSysStat(fi)
	out := hx.Itoa(int(fi.Mode()&(fs.ModeType|fs.ModePerm))) + "," + hx.Itoa(st.Uid()) + "." + hx.Itoa(st.Gid())
	if fi.Mode().IsRegular() {
		b, _ := v.ReadFile(p)
		return out + "," + hx.Itoa(int(st.Nlink())) + "," + hx.Itoa(int(fi.Size())) + ":" + string(b)
	}
	if fi.Mode()&fs.ModeSymlink != 0 {
		t, _ := v.Readlink(p)
		return out + ">" + t
	}
	return out
}

// wellFormed asserts I1-I3 and returns the walked nodes.
func wellFormed(v avfs.VFS, sig string) []node {
	var ns []node
	budget := 60
	root := "/"
	if _, err := v.Lstat("/"); err != nil {
		// OrefaFS cannot address its root directory (known finding, C14): walk the scratch tree
		root = "/w"
	}
	ok := walk(v, root, &ns, &budget)
	sym.Assert(ok, sig+"|walk-does-not-terminate")
	if !ok {
		return ns
	}
	for i, n := range ns {
		if n.fi.IsDir() {
			es, err := v.ReadDir(n.path)
			sym.Assert(err == nil, sig+"|directory-not-listable")
			for j, e := range es {
				if j > 0 {
					sym.Assert(es[j-1].Name() < e.Name(), sig+"|listing-not-sorted-or-duplicate")
				}
				sym.Assert(e.Name() != "", sig+"|empty-name-listed")
			}
			continue
		}
		if !n.fi.Mode().IsRegular() {
			continue
		}
		// link count = number of walked paths that are the same file; they agree on everything
		cnt := 0
		for j, m := range ns {
			if m.fi.Mode().IsRegular() && v.SameFile(n.fi, m.fi) {
				cnt++
				if j > i {
					sym.Assert(entry(v, n.fi, n.path) == entry(v, m.fi, m.path), sig+"|links-of-one-file-disagree")
				}
			}
		}
		sym.Assert(uint64(cnt) == v.ToSysStat(n.fi).Nlink(), sig+"|link-count-differs-from-number-of-names")
	}
	// a name is listed iff Lstat of it succeeds
	for _, u := range universe[1:] {
		i := len(u) - 1
		for u[i] != '/' {
			i--
		}
		dir, base := u[:i], u[i+1:]
		if dir == "" {
			dir = "/"
		}
		es, err := v.ReadDir(dir)
		if err != nil {
			continue
		}
		listed := false
		for _, e := range es {
			if e.Name() == base {
				listed = true
			}
		}
		_, lerr := v.Lstat(u)
		sym.Assert(listed == (lerr == nil), sig+"|listed-iff-lstat-succeeds")
	}
	return ns
}

func under(p, q string) bool {
	return p == q || len(p) > len(q) && p[:len(q)] == q && (q == "/" || p[len(q)] == '/')
}

type call struct {
	op   string
	p, q string
	perm fs.FileMode
	size int64
	flag int
	data []byte
}

func pick(op string, tag string) call {
	c := call{op: op}
	c.p = universe[sym.Choose(tag+"p", NumPaths)]
	if twoPath(op) {
		c.q = universe[sym.Choose(tag+"q", NumPaths)]
	}
	switch op {
	case "Mkdir", "MkdirAll", "Chmod":
		c.perm = fs.FileMode(sym.Uint32(tag+"perm")) & 0o777
	case "WriteFile":
		c.data = sym.Bytes(tag+"data", 1)
	case "Truncate":
		c.size = sym.Int64(tag + "size")
		sym.Assume(c.size >= -1 && c.size <= 3)
	case "OpenFile":
		c.flag = sym.Int(tag+"flag") & (3 | 0x40 | 0x80 | 0x200 | 0x400)
		sym.Assume(c.flag&3 != 3)
	}
	return c
}

func apply(v avfs.VFS, c call) error {
	switch c.op {
	case "Mkdir":
		return v.Mkdir(c.p, c.perm)
	case "MkdirAll":
		return v.MkdirAll(c.p, c.perm)
	case "Create":
		f, err := v.Create(c.p)
		if err == nil {
			_ = f.Close()
		}
		return err
	case "WriteFile":
		return v.WriteFile(c.p, c.data, 0o644)
	case "Remove":
		return v.Remove(c.p)
	case "RemoveAll":
		return v.RemoveAll(c.p)
	case "Rename":
		return v.Rename(c.p, c.q)
	case "Link":
		return v.Link(c.p, c.q)
	case "Symlink":
		return v.Symlink(c.p, c.q)
	case "Truncate":
		return v.Truncate(c.p, c.size)
	case "Chmod":
		return v.Chmod(c.p, c.perm)
	case "OpenFile":
		f, err := v.OpenFile(c.p, c.flag, 0o644)
		if err == nil {
			_ = f.Close()
		}
		return err
	}
	return nil
}

// followsLast: does the call act on what a symbolic link in the last position refers to?
func followsLast(op string) bool {
	switch op {
	case "Remove", "RemoveAll", "Rename", "Link", "Symlink", "Mkdir":
		return false
	}
	return true
}

// resolved is the path an operand names once symbolic links are resolved: all
// of them, or (last == false) those of the parent directory only.
func resolved(v avfs.VFS, p string, last bool) string {
	if last {
		r, _ := v.EvalSymlinks(p)
		return r
	}
	d, b := v.Split(p)
	if b == "" {
		r, _ := v.EvalSymlinks(p)
		return r
	}
	r, err := v.EvalSymlinks(d)
	if err != nil {
		return ""
	}
	return v.Join(r, b)
}

// step performs one call and asserts I1-I5.
func step(v avfs.VFS, kind int, c call) { stepErr(v, kind, c) }

// stepErr is step returning whether the call succeeded.
func stepErr(v avfs.VFS, kind int, c call) bool {
	label := hx.KindName(kind) + "|" + c.op + "|" + sysx.Kind(sysx.ImplSys{V: v}, c.p)
	if twoPath(c.op) {
		label += "," + sysx.Kind(sysx.ImplSys{V: v}, c.q)
		switch {
		case c.p == c.q:
			label += ",same"
		case under(c.q, c.p):
			label += ",src-above-dst"
		case under(c.p, c.q):
			label += ",dst-above-src"
		}
	}
	sym.Label(label)
	sig := "C05|" + label
	before := wellFormed(v, sig+"|before")
	snap := make([]string, len(before))
	for i, n := range before {
		snap[i] = entry(v, n.fi, n.path)
	}
	var pfi, qfi, tfi fs.FileInfo
	pfi, _ = v.Lstat(c.p)
	if c.q != "" {
		qfi, _ = v.Lstat(c.q)
	}
	if followsLast(c.op) {
		// the file a link operand refers to: its other names change with it
		tfi, _ = v.Stat(c.p)
	}
	// operands that reach their entry through a symbolic link in a directory
	// position name it by another spelling: the lexical reasoning of the
	// post-conditions and of I5 does not apply to them (I1-I4 still do)
	throughLink := false
	for _, x := range []string{c.p, c.q} {
		if x != "" && c.op != "Symlink" {
			if r := resolved(v, x, false); r != "" && r != v.Clean(x) {
				throughLink = true
			}
		}
	}
	// what the operands resolve to through symbolic links is named by the call too
	// (calls that act on the link itself name the entry below the resolved parent)
	pt := resolved(v, c.p, followsLast(c.op))
	qt := ""
	if c.q != "" && c.op != "Symlink" {
		qt = resolved(v, c.q, false)
	}
	// regular files below a named entry: their other names may change (link count)
	var inside []fs.FileInfo
	for _, n := range before {
		if n.fi.Mode().IsRegular() && (under(n.path, c.p) || c.q != "" && under(n.path, c.q)) {
			inside = append(inside, n.fi)
		}
	}
	var err error
	res := sym.Outcome(func() { err = apply(v, c) })
	sym.Assert(!res.Panicked, sig+"|panic|"+res.Class+"|"+res.Site)
	if res.Panicked {
		return false
	}
	sym.Observe("err", hx.Code(err))
	after := wellFormed(v, sig+"|after")
	if err != nil && c.op != "RemoveAll" {
		// I4: a failed call leaves the tree exactly as it was
		same := len(after) == len(before)
		for i := 0; same && i < len(after); i++ {
			same = after[i].path == before[i].path && entry(v, after[i].fi, after[i].path) == snap[i]
		}
		sym.Assert(same, sig+"|failed-call-changed-the-tree")
		return false
	}
	if err != nil {
		return false
	}
	if throughLink && !followsLast(c.op) {
		return true
	}
	// a successful creating call leaves the new name in place (a renamed directory
	// must not be detached from the tree)
	switch c.op {
	case "Mkdir", "MkdirAll", "Create", "WriteFile":
		_, lerr := v.Lstat(c.p)
		sym.Assert(lerr == nil, sig+"|created-name-does-not-exist")
	case "Rename", "Link", "Symlink":
		_, lerr := v.Lstat(c.q)
		sym.Assert(lerr == nil, sig+"|new-name-does-not-exist")
		if c.op == "Rename" && c.p != c.q && !(pfi != nil && qfi != nil && v.SameFile(pfi, qfi) && pfi.Mode().IsRegular()) {
			_, oerr := v.Lstat(c.p)
			sym.Assert(oerr != nil, sig+"|old-name-still-exists")
		}
	}
	// I5: entries not named by the call (nor below a named entry, nor another
	// name of a named file) are unchanged
	for i, n := range before {
		if under(n.path, c.p) || c.q != "" && under(n.path, c.q) {
			continue
		}
		if pt != "" && under(n.path, pt) || qt != "" && under(n.path, qt) {
			continue
		}
		if n.fi.Mode().IsRegular() && (pfi != nil && v.SameFile(n.fi, pfi) || qfi != nil && v.SameFile(n.fi, qfi) || tfi != nil && v.SameFile(n.fi, tfi)) {
			continue
		}
		alias := false
		for _, x := range inside {
			if n.fi.Mode().IsRegular() && v.SameFile(n.fi, x) {
				alias = true
			}
		}
		if alias {
			continue
		}
		fi, lerr := v.Lstat(n.path)
		sym.Assert(lerr == nil, sig+"|unrelated-entry-disappeared")
		if lerr == nil {
			sym.Assert(entry(v, fi, n.path) == snap[i], sig+"|unrelated-entry-changed")
		}
	}
	return true
}

// HInv: one call from seed tree s.
func HInv(kind, s, op int) {
	v := hx.NewBase(kind)
	if s == 3 && !v.HasFeature(avfs.FeatSymlink) {
		return
	}
	if Ops[op] == "Symlink" && !v.HasFeature(avfs.FeatSymlink) {
		return
	}
	hx.Seed(v, s)
	sym.Reach("inv")
	step(v, kind, pick(Ops[op], ""))
}

// HInv2: two calls.
func HInv2(kind, s, op1, op2 int) {
	v := hx.NewBase(kind)
	if !v.HasFeature(avfs.FeatSymlink) && (s == 3 || Ops[op1] == "Symlink" || Ops[op2] == "Symlink") {
		return
	}
	hx.Seed(v, s)
	sym.Reach("inv2")
	// first call: operands range over the universe, scalars are fixed; only
	// histories whose first call succeeds continue (a failed call leaves the tree
	// as it was - asserted - so what follows it is covered by HInv)
	c1 := pick(Ops[op1], "a")
	c1.perm, c1.size, c1.flag, c1.data = 0o750, 1, 0x41, []byte("q")
	if kind == hx.KOrefa && (c1.p == "/" || c1.q == "/") {
		// OrefaFS cannot address its root (known finding, reported by HInv): a first
		// call naming "/" corrupts the index and what follows would only echo it
		return
	}
	if !stepErr(v, kind, c1) {
		return
	}
	sym.Reach("inv2-second")
	step(v, kind, pick(Ops[op2], "b"))
}
