// Package c06: concurrent namespace operations are linearizable. Two (or three)
// goroutines each issue one call on a shared tree (MemFS: each through its own
// Sub view; OrefaFS: shared); under every schedule explored by the engine the
// results and the final tree must equal those of some sequential order of the
// same calls. Deadlocks (C07) and data races (C08, with the race monitor on)
// are reported by the engine for the same programs.
package c06

import (
	"io/fs"
	"sync"

	"github.com/avfs/avfs"

	"verif/harness/hx"
	"verif/harness/sym"
)

func init() {
	sym.Register("c06.HTempPair", HTempPair)
	sym.Register("c06.HPair", HPair)
	sym.Register("c06.HTriple", HTriple)
}

// Ops are the call templates on overlapping names.
var Ops = []string{
	"Mkdir(/w/n)", "CreateExcl(/w/n)", "WriteFile(/w/n)", "Link(/w/b,/w/n)", "Rename(/w/b,/w/n)", "Rename(/w/a/a,/w/n)",
	"Remove(/w/b)", "Remove(/w/a/a)", "RemoveAll(/w/a)", "MkdirAll(/w/a/x/y)", "ReadDir(/w)", "ReadDir(/w/a)",
	"Rename(/w/a/a,/w/e/x)", "Rename(/w/e/f,/w/a/y)", "Rename(/w/a,/w/e/a2)", "Stat(/w/a/a)", "ReadFile(/w/b)", "MkdirTemp(/w)", "CreateTemp(/w)",
	"Symlink(a,/w/n)", "Truncate(/w/b)", "Chmod(/w/b)", "Rename(/w/a/c,/w/a/a)", "Link(/w/a/c,/w/n)",
	"Lstat(/w/a/x/y)", "WriteFile(/w/e/n)",
}

// NumOps is len(Ops).
const NumOps = 26

func seed(v avfs.VFS) {
	hx.Must(v.MkdirAll("/w/a", 0o755))
	hx.Must(v.Mkdir("/w/e", 0o755))
	hx.Must(v.WriteFile("/w/a/a", []byte("x"), 0o644))
	hx.Must(v.WriteFile("/w/a/c", []byte("c"), 0o644))
	hx.Must(v.WriteFile("/w/b", []byte("yy"), 0o644))
	hx.Must(v.WriteFile("/w/e/f", []byte("z"), 0o644))
}

func names(es []fs.DirEntry) string {
	out := ""
	for _, e := range es {
		out += e.Name() + ","
	}
	return out
}

// run performs op i on v and renders its result.
func run(v avfs.VFS, i int) string {
	code := func(err error) string { return hx.CodeName(hx.Code(err)) }
	switch Ops[i] {
	case "Mkdir(/w/n)":
		return code(v.Mkdir("/w/n", 0o755))
	case "CreateExcl(/w/n)":
		f, err := v.OpenFile("/w/n", 2|0x40|0x80, 0o644)
		if err == nil {
			_ = f.Close()
		}
		return code(err)
	case "WriteFile(/w/n)":
		return code(v.WriteFile("/w/n", []byte("n"), 0o644))
	case "Link(/w/b,/w/n)":
		return code(v.Link("/w/b", "/w/n"))
	case "Rename(/w/b,/w/n)":
		return code(v.Rename("/w/b", "/w/n"))
	case "Rename(/w/a/a,/w/n)":
		return code(v.Rename("/w/a/a", "/w/n"))
	case "Remove(/w/b)":
		return code(v.Remove("/w/b"))
	case "Remove(/w/a/a)":
		return code(v.Remove("/w/a/a"))
	case "RemoveAll(/w/a)":
		return code(v.RemoveAll("/w/a"))
	case "MkdirAll(/w/a/x/y)":
		return code(v.MkdirAll("/w/a/x/y", 0o755))
	case "ReadDir(/w)":
		es, err := v.ReadDir("/w")
		return code(err) + ":" + names(es)
	case "ReadDir(/w/a)":
		es, err := v.ReadDir("/w/a")
		return code(err) + ":" + names(es)
	case "Rename(/w/a/a,/w/e/x)":
		return code(v.Rename("/w/a/a", "/w/e/x"))
	case "Rename(/w/e/f,/w/a/y)":
		return code(v.Rename("/w/e/f", "/w/a/y"))
	case "Rename(/w/a,/w/e/a2)":
		return code(v.Rename("/w/a", "/w/e/a2"))
	case "Lstat(/w/a/x/y)":
		// missing unless the other goroutine creates it
		_, err := v.Lstat("/w/a/x/y")
		return code(err)
	case "WriteFile(/w/e/n)":
		// a creation in another directory than the other creating templates
		return code(v.WriteFile("/w/e/n", []byte("e"), 0o644))
	case "Stat(/w/a/a)":
		fi, err := v.Stat("/w/a/a")
		if err != nil {
			return code(err)
		}
		return "ok:" + hx.Itoa(int(fi.Size()))
	case "ReadFile(/w/b)":
		b, err := v.ReadFile("/w/b")
		return code(err) + ":" + string(b)
	case "MkdirTemp(/w)":
		n, err := v.MkdirTemp("/w", "t*")
		if err != nil {
			return code(err)
		}
		return "ok:" + n
	case "CreateTemp(/w)":
		f, err := v.CreateTemp("/w", "t*")
		if err != nil {
			return code(err)
		}
		n := f.Name()
		_ = f.Close()
		return "ok:" + n
	case "Symlink(a,/w/n)":
		return code(v.Symlink("a", "/w/n"))
	case "Truncate(/w/b)":
		return code(v.Truncate("/w/b", 1))
	case "Chmod(/w/b)":
		return code(v.Chmod("/w/b", 0o600))
	case "Rename(/w/a/c,/w/a/a)":
		return code(v.Rename("/w/a/c", "/w/a/a"))
	case "Link(/w/a/c,/w/n)":
		return code(v.Link("/w/a/c", "/w/n"))
	}
	return "?"
}

func isTemp(i int) bool { return Ops[i] == "MkdirTemp(/w)" || Ops[i] == "CreateTemp(/w)" }

func needsSymlink(i int) bool { return Ops[i] == "Symlink(a,/w/n)" }

// views returns n handles on one shared tree: per-goroutine Sub("/") views of a
// MemFS, or the shared OrefaFS itself.
func views(kind, n int) (avfs.VFS, []avfs.VFS) {
	base := hx.NewBase(kind)
	seed(base)
	vs := make([]avfs.VFS, n)
	for i := range vs {
		vs[i] = base
		if base.HasFeature(avfs.FeatSubFS) {
			s, err := base.Sub("/")
			hx.Must(err)
			vs[i] = s
		}
	}
	return base, vs
}

// sequential runs the calls in the given order on a fresh tree.
func sequential(kind int, order []int, ops []int) (res []string, tree string) {
	base, vs := views(kind, len(ops))
	res = make([]string, len(ops))
	for _, k := range order {
		res[k] = run(vs[k], ops[k])
	}
	return res, hx.Snapshot(base, "/w", false)
}

// norm replaces every generated temporary name (/w/t<digits>) by /w/t#: random
// names are compared by pattern, their uniqueness is asserted separately.
func norm(s string) string {
	out := ""
	for i := 0; i < len(s); i++ {
		out += string(s[i])
		if i >= 3 && s[i-3:i+1] == "/w/t" {
			j := i + 1
			for j < len(s) && s[j] >= '0' && s[j] <= '9' {
				j++
			}
			if j > i+1 {
				out += "#"
				i = j - 1
			}
		}
	}
	return out
}

func same(a, b []string) bool {
	for i := range a {
		if norm(a[i]) != norm(b[i]) {
			return false
		}
	}
	return true
}

func concurrent(kind int, ops []int) (res []string, tree string, counts string) {
	base, vs := views(kind, len(ops))
	res = make([]string, len(ops))
	var wg sync.WaitGroup
	for k := range ops {
		wg.Add(1)
		go func(k int) {
			defer wg.Done()
			res[k] = run(vs[k], ops[k])
		}(k)
	}
	wg.Wait()
	es, _ := base.ReadDir("/w")
	ea, _ := base.ReadDir("/w/a")
	ee, _ := base.ReadDir("/w/e")
	return res, hx.Snapshot(base, "/w", false), hx.Itoa(len(es)) + "+" + hx.Itoa(len(ea)) + "+" + hx.Itoa(len(ee))
}

func check(kind int, ops []int, orders [][]int) {
	label := hx.KindName(kind)
	for _, o := range ops {
		label += "|" + Ops[o]
	}
	sym.Label(label)
	sym.Reach("concurrent")
	res, tree, counts := concurrent(kind, ops)
	sym.Reach("joined")
	ok := false
	for _, ord := range orders {
		r, t := sequential(kind, ord, ops)
		if same(r, res) && norm(t) == norm(tree) {
			ok = true
			break
		}
	}
	if !ok {
		// the observed outcome is part of the signature: a different wrong outcome
		// of the same pair is a different finding
		got := ""
		for _, r := range res {
			i := 0
			for i < len(r) && r[i] != ':' {
				i++
			}
			got += r[:i] + ";"
		}
		sym.Assert(false, "C06|"+label+"|not-linearizable|got="+got+"|entries="+counts)
	}
	sym.Assert(ok, "C06|"+label+"|not-linearizable")
	// temporary names handed to two callers are different
	for i := range res {
		for j := i + 1; j < len(res); j++ {
			if len(res[i]) > 3 && res[i][:3] == "ok:" && isTemp(ops[i]) && isTemp(ops[j]) {
				sym.Assert(res[i] != res[j], "C06|"+label+"|same-temporary-name-handed-out-twice")
			}
		}
	}
}

// HTempPair: two goroutines create temporary entries (file or directory each)
// in the same directory with the same pattern, under the symbolic random-name
// stub: both succeed with different names that exist afterwards.
func HTempPair(kind, dirA, dirB int) {
	base, vs := views(kind, 2)
	sym.Label(hx.KindName(kind) + "|TempPair")
	sym.Reach("concurrent")
	res := make([]string, 2)
	errs := make([]error, 2)
	mk := func(v avfs.VFS, dir int) (string, error) {
		if dir == 1 {
			return v.MkdirTemp("/w", "t*")
		}
		f, err := v.CreateTemp("/w", "t*")
		if err != nil {
			return "", err
		}
		n := f.Name()
		_ = f.Close()
		return n, nil
	}
	var wg sync.WaitGroup
	wg.Add(2)
	go func() { defer wg.Done(); res[0], errs[0] = mk(vs[0], dirA) }()
	go func() { defer wg.Done(); res[1], errs[1] = mk(vs[1], dirB) }()
	wg.Wait()
	sym.Reach("joined")
	sym.Assert(errs[0] == nil && errs[1] == nil, "C06|"+hx.KindName(kind)+"|TempPair|creation-failed")
	if errs[0] != nil || errs[1] != nil {
		return
	}
	sym.Assert(res[0] != res[1], "C06|"+hx.KindName(kind)+"|TempPair|same-temporary-name-handed-out-twice")
	_, e0 := base.Lstat(res[0])
	_, e1 := base.Lstat(res[1])
	sym.Assert(e0 == nil && e1 == nil, "C06|"+hx.KindName(kind)+"|TempPair|returned-name-does-not-exist")
	es, _ := base.ReadDir("/w")
	sym.Assert(len(es) == 5, "C06|"+hx.KindName(kind)+"|TempPair|entries-lost-or-duplicated") // a, b, e + the two new entries
}

// HPair: two goroutines, one call each.
func HPair(kind, a, b int) {
	if kind == hx.KOrefa && (needsSymlink(a) || needsSymlink(b)) {
		return
	}
	if isTemp(a) || isTemp(b) {
		return // random names: see HTempPair
	}
	check(kind, []int{a, b}, [][]int{{0, 1}, {1, 0}})
}

// HTriple: three goroutines, one call each.
func HTriple(kind, a, b, c int) {
	if kind == hx.KOrefa && (needsSymlink(a) || needsSymlink(b) || needsSymlink(c)) {
		return
	}
	check(kind, []int{a, b, c}, [][]int{{0, 1, 2}, {0, 2, 1}, {1, 0, 2}, {1, 2, 0}, {2, 0, 1}, {2, 1, 0}})
}
