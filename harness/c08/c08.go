// Package c08: no data race under the documented concurrent use. The programs
// are run by the engine with its happens-before (vector clock) race monitor on:
// a pair of conflicting accesses to one interpreted heap cell or map that is
// not ordered by lock release/acquire, WaitGroup, or goroutine start/join is
// reported as RACE. The harnesses assert nothing themselves.
package c08

import (
	"sync"

	"github.com/avfs/avfs"
	"github.com/avfs/avfs/idm/memidm"

	"verif/harness/c06"
	"verif/harness/hx"
	"verif/harness/sym"
	"verif/harness/sysx"
)

func init() {
	sym.Register("c08.HNamespace", HNamespace)
	sym.Register("c08.HFilePair", HFilePair)
	sym.Register("c08.HIdmPair", HIdmPair)
	sym.Register("c08.HViews", HViews)
}

// HNamespace: the C06 two-goroutine programs (namespace calls through
// per-goroutine Sub views of one MemFS / one shared OrefaFS).
func HNamespace(kind, a, b int) {
	sym.Reach("namespace")
	c06.HPair(kind, a, b)
}

// FileOps on one file from two goroutines.
var FileOps = []string{"Read", "Write", "ReadAt", "WriteAt", "Seek", "Stat", "Truncate", "Close", "Sync", "SeekEnd", "SeekCur"}

// NumFileOps is len(FileOps).
const NumFileOps = 11

func fileOp(f avfs.File, i int) {
	b := make([]byte, 1)
	switch FileOps[i] {
	case "Read":
		_, _ = f.Read(b)
	case "Write":
		_, _ = f.Write([]byte("w"))
	case "ReadAt":
		_, _ = f.ReadAt(b, 0)
	case "WriteAt":
		_, _ = f.WriteAt([]byte("w"), 1)
	case "Seek":
		_, _ = f.Seek(1, 0)
	case "SeekEnd":
		_, _ = f.Seek(0, 2)
	case "SeekCur":
		_, _ = f.Seek(1, 1)
	case "Stat":
		_, _ = f.Stat()
	case "Truncate":
		_ = f.Truncate(1)
	case "Close":
		_ = f.Close()
	case "Sync":
		_ = f.Sync()
	}
}

// HFilePair: two goroutines operate on the same file through two distinct
// handles (shared==0) or through one shared handle (shared==1).
func HFilePair(kind, shared, a, b int) {
	v := hx.NewBase(kind)
	hx.Must(v.MkdirAll("/w", 0o755))
	hx.Must(v.WriteFile("/w/f", []byte("abc"), 0o644))
	f1, err := v.OpenFile("/w/f", 2, 0)
	hx.Must(err)
	f2 := f1
	if shared == 0 {
		f2, err = v.OpenFile("/w/f", 2, 0)
		hx.Must(err)
	}
	lbl := "distinct-handles"
	if shared == 1 {
		lbl = "shared-handle"
	}
	sym.Label(hx.KindName(kind) + "|" + lbl + "|File." + FileOps[a] + "|File." + FileOps[b])
	sym.Reach("files")
	var wg sync.WaitGroup
	wg.Add(2)
	go func() { defer wg.Done(); fileOp(f1, a) }()
	go func() { defer wg.Done(); fileOp(f2, b) }()
	wg.Wait()
	// effects of completed calls are visible afterwards
	_, _ = v.ReadFile("/w/f")
	_, _ = f1.Stat()
}

// HIdmPair: two goroutines share one MemIdm.
func HIdmPair(a, b int) {
	idm := memidm.New()
	_, _ = idm.AddGroup("g")
	_, _ = idm.AddUser("u", "g")
	ops := []func(){
		func() { _, _ = idm.AddGroup("x") },
		func() { _, _ = idm.AddUser("v", "g") },
		func() { _ = idm.DelGroup("g") },
		func() { _ = idm.DelUser("u") },
		func() { _, _ = idm.LookupUser("u") },
		func() { _, _ = idm.LookupGroupId(1001) },
		func() { _, _ = idm.LookupUserId(1001) },
		func() { _, _ = idm.LookupGroup("g") },
	}
	names := []string{"AddGroup", "AddUser", "DelGroup", "DelUser", "LookupUser", "LookupGroupId", "LookupUserId", "LookupGroup"}
	sym.Label("memidm|" + names[a] + "|" + names[b])
	sym.Reach("idm")
	var wg sync.WaitGroup
	wg.Add(2)
	go func() { defer wg.Done(); ops[a]() }()
	go func() { defer wg.Done(); ops[b]() }()
	wg.Wait()
	_, _ = idm.LookupUser("v")
}

// ViewOps are done by each goroutine on its own Sub view of one MemFS, after
// setting its own user, umask and working directory on that view.
var ViewOps = []string{"Create", "Mkdir", "Stat", "ReadDir", "Chmod", "RelativeStat", "CreateInOwnDir"}

// NumViewOps is len(ViewOps).
const NumViewOps = 7

// HViews: per-goroutine Sub views with different users.
func HViews(a, b int) {
	base := hx.NewBase(hx.KMem)
	hx.Must(base.MkdirAll("/w/a", 0o777))
	hx.Must(base.Chmod("/w", 0o777))
	hx.Must(base.WriteFile("/w/b", []byte("y"), 0o666))
	// one directory per goroutine: creations there share no directory lock
	hx.Must(base.Mkdir("/w/dn1", 0o777))
	hx.Must(base.Mkdir("/w/dn2", 0o777))
	hx.Must(base.Chmod("/w/dn1", 0o777))
	hx.Must(base.Chmod("/w/dn2", 0o777))
	mk := func() avfs.VFS {
		s, err := base.Sub("/")
		hx.Must(err)
		return s
	}
	v1, v2 := mk(), mk()
	sym.Label("memfs|views|" + ViewOps[a] + "|" + ViewOps[b])
	sym.Reach("views")
	body := func(v avfs.VFS, uid int, op int, name string) {
		_ = v.SetUser(&sysx.User{N: "u", UID: uid, GID: uid})
		_ = v.SetUMask(0o027)
		_ = v.Chdir("/w")
		switch ViewOps[op] {
		case "Create":
			if f, err := v.Create("/w/" + name); err == nil {
				_ = f.Close()
			}
		case "Mkdir":
			_ = v.Mkdir("/w/a/"+name, 0o755)
		case "Stat":
			_, _ = v.Stat("/w/b")
		case "ReadDir":
			_, _ = v.ReadDir("/w")
		case "Chmod":
			_ = v.Chmod("/w/b", 0o600)
		case "RelativeStat":
			_, _ = v.Stat("b")
		case "CreateInOwnDir":
			if f, err := v.Create("/w/d" + name + "/f"); err == nil {
				_ = f.Close()
			}
		}
		_ = v.User()
		_ = v.UMask()
		_, _ = v.Getwd()
	}
	var wg sync.WaitGroup
	wg.Add(2)
	go func() { defer wg.Done(); body(v1, 1001, a, "n1") }()
	go func() { defer wg.Done(); body(v2, 1002, b, "n2") }()
	wg.Wait()
	_, _ = base.ReadDir("/w")
}
