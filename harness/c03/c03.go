// Package c03: permission and ownership enforcement of MemFS for arbitrary
// owners, groups and permission bits versus posixref's discretionary access
// control (validated against the kernel under the same fsuid/fsgid natively).
package c03

import (
	"verif/harness/hx"
	"verif/harness/posix"
	"verif/harness/sym"
	"verif/harness/sysx"
)

func init() {
	sym.Register("c03.HCall", HCall)
}

// Call templates.
var Calls = []string{"Stat", "Lstat", "OpenFile", "ReadDir", "ReadFile", "Mkdir", "MkdirAll", "Create", "WriteFile", "Remove", "RemoveAll", "Rename", "Link", "Symlink", "Chmod", "Chown", "Chtimes", "Truncate", "Readlink", "RenameDir"} // RemoveAll by a non-administrator follows os.RemoveAll's own multi-step algorithm: asserted for the administrator only

// NumCalls is len(Calls).
const NumCalls = 20

type node struct {
	path string
	mode uint32
	uid  int
	gid  int
}

func ids(tag string) (int, int) {
	// 16-bit ids (no branching); only their equalities matter
	u := sym.Int(tag+"uid") & 0xFFFF
	g := sym.Int(tag+"gid") & 0xFFFF
	return u, g
}

type worlds struct {
	impl  sysx.ImplSys
	model sysx.ModelSys
	kern  *sysx.KernelSys
}

func (w worlds) each(f func(s sysx.Sys)) {
	f(w.impl)
	f(w.model)
	if w.kern != nil {
		f(w.kern)
	}
}

func must(c int) {
	if c != 0 {
		panic("setup failed: " + hx.CodeName(c))
	}
}

// HCall: tree /w/d (dir), /w/d/f (file), /w/d/s (subdir, depth 3 when deep==1),
// /w/e (second dir) with symbolic mode/uid/gid on every node; acting user with
// symbolic uid/gid, symbolic umask; one call.
func HCall(call, deep int) {
	v := hx.NewBase(hx.KMem)
	w := worlds{impl: sysx.ImplSys{V: v}, model: sysx.ModelSys{F: posix.New()}}
	if sym.Native() {
		w.kern = sysx.NewKernel()
		defer w.kern.Done()
		defer w.kern.Restore()
	}
	name := Calls[call]
	// nodes with symbolic attributes (12 permission bits for directories incl. setgid/sticky)
	var nodes []node
	mk := func(p string, tag string, bits uint32) {
		m := sym.Uint32(tag+"mode") & bits
		u, g := ids(tag)
		nodes = append(nodes, node{p, m, u, g})
	}
	usesE := name == "Rename" || name == "RenameDir" || name == "Link"
	usesFile := !(name == "ReadDir" || name == "Mkdir" || name == "MkdirAll" || name == "Create" || name == "Symlink" || name == "Lstat" || name == "Readlink")
	mk("/w/d", "d", 0o3777)
	if usesE {
		mk("/w/e", "e", 0o3777)
	}
	if usesFile && deep == 0 {
		mk("/w/d/f", "f", 0o777)
	}
	if deep == 1 {
		mk("/w/d/s", "s", 0o3777)
		if usesFile {
			mk("/w/d/s/g", "g", 0o777)
		}
	}
	w.each(func(s sysx.Sys) {
		must(s.MkdirAll("/w", 0o755))
		must(s.Mkdir("/w/d", 0o755))
		must(s.Mkdir("/w/e", 0o755))
		c, c2 := s.OpenWrite("/w/d/f", 1|0x40|0x200, 0o644, []byte("x"))
		must(c)
		must(c2)
		must(s.Symlink("f", "/w/d/l"))
		if deep == 1 {
			must(s.Mkdir("/w/d/s", 0o755))
			c, c2 = s.OpenWrite("/w/d/s/g", 1|0x40|0x200, 0o644, []byte("y"))
			must(c)
			must(c2)
		}
		// attributes are installed by the administrator, deepest first
		for i := len(nodes) - 1; i >= 0; i-- {
			n := nodes[i]
			must(s.Chown(n.path, n.uid, n.gid))
			must(s.Chmod(n.path, n.mode))
		}
	})
	uu, ug := ids("u")
	umask := sym.Uint32("umask") & 0o777
	set := func(c sysx.Creds) {
		c.SetUmask(umask)
		c.SetCreds(uu, ug)
	}
	set(w.impl)
	set(w.model)
	if w.kern != nil {
		set(w.kern)
	}
	target := "/w/d/f"
	dirT := "/w/d"
	if deep == 1 {
		target = "/w/d/s/g"
		dirT = "/w/d/s"
	}
	who := "other"
	if uu == 0 {
		who = "admin"
	}
	label := "memfs|" + name + "|" + who
	if deep == 1 {
		label += "|depth3"
	}
	sym.Label(label)
	if name == "RemoveAll" {
		sym.Assume(uu == 0)
	}
	sym.Reach("call")
	flag := 0
	perm := uint32(0)
	nuid, ngid := 0, 0
	tsize := int64(0)
	switch name {
	case "Truncate":
		// the new size straddles the current size (a call that changes nothing
		// is checked like any other)
		tsize = sym.Int64("tsize")
		sym.Assume(tsize >= 0 && tsize <= 2)
	case "OpenFile":
		flag = sym.Int("flag") & (3 | posix.OTrunc | posix.OAppend)
		sym.Assume(flag&3 != 3)
	case "Mkdir", "MkdirAll", "Create", "WriteFile":
		perm = sym.Uint32("perm") & 0o777
	case "Chmod":
		perm = sym.Uint32("newmode") & 0o7777
	case "Chown":
		nuid, ngid = (sym.Int("nuid")&0xFFFF)-1, (sym.Int("ngid")&0xFFFF)-1
	}
	do := func(s sysx.Sys) (int, int) {
		switch name {
		case "Stat":
			_, c := s.Stat(target)
			return c, 0
		case "Lstat":
			_, c := s.Lstat(dirT + "/../d/l")
			return c, 0
		case "OpenFile":
			return s.OpenWrite(target, flag, 0, nil)
		case "ReadDir":
			_, c := s.ReadDir(dirT)
			return c, 0
		case "ReadFile":
			_, c := s.ReadFile(target)
			return c, 0
		case "Mkdir":
			return s.Mkdir(dirT+"/n", perm), 0
		case "MkdirAll":
			return s.MkdirAll(dirT+"/n/m", perm), 0
		case "Create":
			return s.OpenWrite(dirT+"/n", 2|0x40|0x200, perm, nil)
		case "WriteFile":
			return s.OpenWrite(target, 1|0x40|0x200, perm, []byte("z"))
		case "Remove":
			return s.Remove(target), 0
		case "RemoveAll":
			return s.RemoveAll(dirT), 0
		case "Rename":
			return s.Rename(target, "/w/e/g"), 0
		case "RenameDir":
			return s.Rename(dirT, "/w/e/d2"), 0
		case "Link":
			return s.Link(target, "/w/e/h"), 0
		case "Symlink":
			return s.Symlink("x", dirT+"/sl"), 0
		case "Chmod":
			return s.Chmod(target, perm), 0
		case "Chown":
			return s.Chown(target, nuid, ngid), 0
		case "Chtimes":
			return s.Chtimes(target), 0
		case "Truncate":
			return s.Truncate(target, tsize), 0
		case "Readlink":
			_, c := s.Readlink("/w/d/l")
			return c, 0
		}
		return 0, 0
	}
	var ci, ci2 int
	res := sym.Outcome(func() { ci, ci2 = do(w.impl) })
	sym.Assert(!res.Panicked, "C03|"+label+"|panic|"+res.Class+"|"+res.Site)
	cm, cm2 := do(w.model)
	if w.kern != nil {
		ck, ck2 := do(w.kern)
		sym.Assert(ck == cm && ck2 == cm2, "ORACLE|"+label+"|errno|kernel-"+hx.CodeName(ck)+"|model-"+hx.CodeName(cm))
	}
	sym.Observe("impl", ci)
	sym.Observe("model", cm)
	// context of a divergence (computed on the failing side only): facts about the
	// directory operated in and the file, as the model sees them
	context := func() string {
		w.model.SetCreds(0, 0)
		c := ""
		dst, de := w.model.Lstat(dirT)
		fst, fe := w.model.Lstat(target)
		switch name {
		case "Create", "Mkdir", "MkdirAll", "Symlink", "WriteFile":
			if de == 0 && dst.Perm&0o2000 != 0 {
				c += "+setgid-dir"
			}
		case "Remove", "Rename", "RenameDir":
			if de == 0 && dst.Perm&0o1000 != 0 {
				c += "+sticky-dir"
				if dst.Uid == uu {
					c += "+owns-dir"
				}
				if fe == 0 && fst.Uid == uu {
					c += "+owns-entry"
				}
			}
			if st, e := w.model.Lstat("/w/e"); usesE && e == 0 && st.Perm&0o1000 != 0 {
				c += "+sticky-dst-dir"
			}
		case "Chown", "Link", "Chtimes":
			if fe == 0 && fst.Uid == uu {
				c += "+owns-file"
			}
		case "Chmod":
			if fe == 0 && fst.Gid != ug {
				c += "+not-in-file-group"
			}
		case "OpenFile":
			if flag&posix.OTrunc != 0 {
				c += "+trunc"
			}
			if flag&posix.OAppend != 0 {
				c += "+append"
			}
			c += "+acc" + hx.Itoa(flag&3)
		}
		if c == "" {
			c = "plain"
		}
		return c
	}
	if ci != cm {
		sym.Assert(false, "C03|"+label+"|decision|got-"+hx.CodeName(ci)+"|want-"+hx.CodeName(cm)+"|"+context())
		return
	}
	if ci2 != cm2 {
		sym.Assert(false, "C03|"+label+"|write-decision|got-"+hx.CodeName(ci2)+"|want-"+hx.CodeName(cm2)+"|"+context())
		return
	}
	// back to the administrator to inspect what was created
	w.impl.SetCreds(0, 0)
	w.model.SetCreds(0, 0)
	if w.kern != nil {
		w.kern.Restore()
	}
	for _, p := range []string{dirT + "/n", dirT + "/sl", "/w/e/g", "/w/e/h", target, dirT} {
		si, c1 := w.impl.Lstat(p)
		sm, c2 := w.model.Lstat(p)
		sym.Assert(c1 == c2, "C03|"+label+"|after|existence")
		if w.kern != nil {
			sk, c3 := w.kern.Lstat(p)
			sym.Assert(c3 == c2 && (c2 != 0 || sk.Uid == sm.Uid && sk.Gid == sm.Gid && (sk.Kind == posix.KLink || sk.Perm == sm.Perm)), "ORACLE|"+label+"|after|attributes")
		}
		if c1 != 0 || c2 != 0 {
			continue
		}
		if si.Uid != sm.Uid || si.Gid != sm.Gid {
			sym.Assert(false, "C03|"+label+"|after|owner|"+context())
			return
		}
		if si.Kind != posix.KLink && si.Perm != sm.Perm {
			sym.Assert(false, "C03|"+label+"|after|mode|"+context())
			return
		}
	}
}
