// Package c13: lexical path functions of avfs (generic implementation, build
// tag avfs_setostype) versus Go's own path/filepath for the emulated OS:
// OS 0 = Linux (path/filepath of this toolchain), OS 1 = Windows (the
// mechanically retargeted copy of the toolchain's Windows implementation,
// verif/harness/gen/winfp, produced by /verif/cmd/genwin).
package c13

import (
	"path/filepath"

	"github.com/avfs/avfs"
	"github.com/avfs/avfs/vfs/memfs"

	winfp "verif/harness/gen/winfp"
	"verif/harness/sym"
)

func init() {
	sym.Register("c13.HClean", HClean)
	sym.Register("c13.HSplit", HSplit)
	sym.Register("c13.HDir", HDir)
	sym.Register("c13.HBase", HBase)
	sym.Register("c13.HIsAbs", HIsAbs)
	sym.Register("c13.HFromSlash", HFromSlash)
	sym.Register("c13.HToSlash", HToSlash)
	sym.Register("c13.HVolumeName", HVolumeName)
	sym.Register("c13.HJoin", HJoin)
	sym.Register("c13.HJoin3", HJoin3)
	sym.Register("c13.HRel", HRel)
	sym.Register("c13.HMatch", HMatch)
	sym.Register("c13.HAbs", HAbs)
	sym.Register("c13.HPathIter", HPathIter)
	sym.Register("c13.HReplacePart", HReplacePart)
	sym.Register("c13.HFromUnixPath", HFromUnixPath)
	sym.Register("c13.HSplitAbs", HSplitAbs)
	sym.Register("c13.HBad", HBad)
}

func osName(os int) string {
	if os == 1 {
		return "windows"
	}
	return "linux"
}

// newFS returns a MemFS whose lexical helpers emulate the given OS. The OS type
// is installed through the verification overlay, not through SetOSType (C17).
func newFS(os int) *memfs.MemFS {
	var m memfs.MemFS
	if os == 1 {
		avfs.VerifSetOS(&m.OSTypeFn, avfs.OsWindows, '\\')
	} else {
		avfs.VerifSetOS(&m.OSTypeFn, avfs.OsLinux, '/')
	}
	return &m
}

type oracle struct {
	Clean      func(string) string
	Split      func(string) (string, string)
	Dir        func(string) string
	Base       func(string) string
	IsAbs      func(string) bool
	FromSlash  func(string) string
	ToSlash    func(string) string
	VolumeName func(string) string
	Join       func(...string) string
	Rel        func(string, string) (string, error)
	Match      func(string, string) (bool, error)
	Sep        byte
}

func oracleFor(os int) oracle {
	if os == 1 {
		return oracle{winfp.Clean, winfp.Split, winfp.Dir, winfp.Base, winfp.IsAbs, winfp.FromSlash, winfp.ToSlash, winfp.VolumeName, winfp.Join, winfp.Rel, winfp.Match, '\\'}
	}
	return oracle{filepath.Clean, filepath.Split, filepath.Dir, filepath.Base, filepath.IsAbs, filepath.FromSlash, filepath.ToSlash, filepath.VolumeName, filepath.Join, filepath.Rel, filepath.Match, '/'}
}

func sig(os int, fn, what string) string { return "C13|" + osName(os) + "|" + fn + "|" + what }

// volClass classifies an input by whether avfs and the oracle agree on the
// length of its volume name. The class is part of every violation signature,
// so that the known Windows version skew (volume-name parsing older than Go
// 1.23.5's) does not hide a divergence on inputs whose volume is agreed on.
func volClass(m *memfs.MemFS, o oracle, ss ...string) string {
	for _, s := range ss {
		if avfs.VolumeNameLen(m, s) != len(o.VolumeName(s)) {
			return "volume-skew"
		}
	}
	if o.Sep == '\\' {
		// Go >= 1.21 keeps a leading double separator after the volume
		// (possible UNC root); avfs' older Clean collapses it.
		for _, s := range ss {
			v := len(o.VolumeName(s))
			if len(s) >= v+2 && isSep(s[v]) && isSep(s[v+1]) {
				return "double-separator-root"
			}
		}
	}
	return "plain"
}

func isSep(c byte) bool { return c == '\\' || c == '/' }

func sigc(os int, fn, what string, m *memfs.MemFS, o oracle, ss ...string) string {
	return sig(os, fn, what) + "|" + volClass(m, o, ss...)
}

func str1(os int, fn string, n int, impl func(*memfs.MemFS, string) string, ref func(oracle, string) string) {
	s := sym.String("s", n)
	m := newFS(os)
	o := oracleFor(os)
	sym.Label(osName(os) + "|" + fn)
	sym.Reach(fn)
	got := impl(m, s)
	want := ref(o, s)
	sym.Observe("got", got)
	sym.Assert(got == want, sigc(os, fn, "result", m, o, s))
}

func HClean(os, n int) {
	str1(os, "Clean", n, func(m *memfs.MemFS, s string) string { return avfs.Clean(m, s) }, func(o oracle, s string) string { return o.Clean(s) })
}

func HDir(os, n int) {
	str1(os, "Dir", n, func(m *memfs.MemFS, s string) string { return avfs.Dir(m, s) }, func(o oracle, s string) string { return o.Dir(s) })
}

func HBase(os, n int) {
	str1(os, "Base", n, func(m *memfs.MemFS, s string) string { return avfs.Base(m, s) }, func(o oracle, s string) string { return o.Base(s) })
}

func HFromSlash(os, n int) {
	str1(os, "FromSlash", n, func(m *memfs.MemFS, s string) string { return avfs.FromSlash(m, s) }, func(o oracle, s string) string { return o.FromSlash(s) })
}

func HToSlash(os, n int) {
	str1(os, "ToSlash", n, func(m *memfs.MemFS, s string) string { return avfs.ToSlash(m, s) }, func(o oracle, s string) string { return o.ToSlash(s) })
}

func HVolumeName(os, n int) {
	str1(os, "VolumeName", n, func(m *memfs.MemFS, s string) string { return avfs.VolumeName(m, s) }, func(o oracle, s string) string { return o.VolumeName(s) })
}

func HSplit(os, n int) {
	s := sym.String("s", n)
	m := newFS(os)
	o := oracleFor(os)
	sym.Label(osName(os) + "|Split")
	sym.Reach("Split")
	d, f := avfs.Split(m, s)
	wd, wf := o.Split(s)
	sym.Observe("dir", d)
	sym.Observe("file", f)
	sym.Assert(d == wd, sigc(os, "Split", "dir", m, o, s))
	sym.Assert(f == wf, sigc(os, "Split", "file", m, o, s))
}

func HIsAbs(os, n int) {
	s := sym.String("s", n)
	m := newFS(os)
	o := oracleFor(os)
	sym.Label(osName(os) + "|IsAbs")
	sym.Reach("IsAbs")
	got := avfs.IsAbs(m, s)
	want := o.IsAbs(s)
	sym.Observe("got", got)
	sym.Assert(got == want, sigc(os, "IsAbs", "result", m, o, s))
}

func HJoin(os, n1, n2 int) {
	a := sym.String("a", n1)
	b := sym.String("b", n2)
	m := newFS(os)
	o := oracleFor(os)
	sym.Label(osName(os) + "|Join")
	sym.Reach("Join")
	got := avfs.Join(m, a, b)
	want := o.Join(a, b)
	sym.Observe("got", got)
	sym.Assert(got == want, sigc(os, "Join", "result", m, o, a, b, want))
}

func HJoin3(os, n1, n2, n3 int) {
	a := sym.String("a", n1)
	b := sym.String("b", n2)
	c := sym.String("c", n3)
	m := newFS(os)
	o := oracleFor(os)
	sym.Label(osName(os) + "|Join3")
	sym.Reach("Join3")
	got := avfs.Join(m, a, b, c)
	want := o.Join(a, b, c)
	sym.Observe("got", got)
	sym.Assert(got == want, sigc(os, "Join3", "result", m, o, a, b, c, want))
}

func ascii(s string) bool {
	for i := 0; i < len(s); i++ {
		if s[i] >= 0x80 {
			return false
		}
	}
	return true
}

func HRel(os, n1, n2 int) {
	a := sym.String("a", n1)
	b := sym.String("b", n2)
	if os == 1 {
		// strings.EqualFold walks Unicode tables for non-ASCII input: outside the claim
		sym.Assume(ascii(a))
		sym.Assume(ascii(b))
	}
	m := newFS(os)
	o := oracleFor(os)
	sym.Label(osName(os) + "|Rel")
	sym.Reach("Rel")
	got, gerr := avfs.Rel(m, a, b)
	want, werr := o.Rel(a, b)
	sym.Observe("got", got)
	sym.Observe("err", gerr != nil)
	sym.Assert((gerr != nil) == (werr != nil), sigc(os, "Rel", "error", m, o, a, b))
	if gerr == nil && werr == nil {
		sym.Assert(got == want, sigc(os, "Rel", "result", m, o, a, b))
	}
}

func HMatch(os, n1, n2 int) {
	p := sym.String("p", n1)
	s := sym.String("s", n2)
	m := newFS(os)
	o := oracleFor(os)
	sym.Label(osName(os) + "|Match")
	sym.Reach("Match")
	got, gerr := avfs.Match(m, p, s)
	want, werr := o.Match(p, s)
	sym.Observe("got", got)
	sym.Observe("err", gerr != nil)
	sym.Assert((gerr != nil) == (werr != nil), sig(os, "Match", "error"))
	sym.Assert(got == want, sig(os, "Match", "result"))
}

// HAbs: Abs(path) with working directory cwd equals filepath.Abs on a Unix
// system whose working directory is cwd (unixAbs: IsAbs ? Clean : Join(wd, path)).
// Windows Abs is GetFullPathName (Win32) and is outside the claim.
func HAbs(os, n1 int) {
	p := sym.String("p", n1)
	m := newFS(os)
	o := oracleFor(os)
	sym.Label(osName(os) + "|Abs")
	sym.Reach("Abs")
	cwd := "/w/d"
	got, err := avfs.Abs(m, p, cwd)
	var want string
	if o.IsAbs(p) {
		want = o.Clean(p)
	} else {
		want = o.Join(cwd, p)
	}
	sym.Observe("got", got)
	sym.Assert(err == nil, sig(os, "Abs", "error"))
	sym.Assert(got == want, sigc(os, "Abs", "result", m, o, p, want))
}

// components of a clean absolute path after its volume name (reference splitting).
func components(rest string, sep byte) []string {
	var out []string
	start := 0
	for i := 0; i <= len(rest); i++ {
		if i == len(rest) || rest[i] == sep {
			if i > start {
				out = append(out, rest[start:i])
			}
			start = i + 1
		}
	}
	return out
}

// HPathIter: a PathIterator over a clean absolute path yields exactly its
// separator-delimited parts in order; Left+Part+Right always reassembles the path.
func HPathIter(os, n int) {
	p := sym.String("p", n)
	m := newFS(os)
	o := oracleFor(os)
	sym.Label(osName(os) + "|PathIterator")
	sym.Assume(o.IsAbs(p))
	sym.Assume(o.Clean(p) == p)
	sym.Reach("PathIterator")
	vol := len(o.VolumeName(p))
	want := components(p[vol:], o.Sep)
	pi := avfs.NewPathIterator(m, p)
	sym.Assert(pi.VolumeNameLen() == vol, sigc(os, "PathIterator", "volume", m, o, p))
	i := 0
	for pi.Next() {
		sym.Assert(i < len(want), sig(os, "PathIterator", "too-many-parts"))
		sym.Assert(pi.Part() == want[i], sig(os, "PathIterator", "part"))
		sym.Assert(pi.Left()+pi.Part()+pi.Right() == p, sig(os, "PathIterator", "reassemble"))
		sym.Assert(pi.Start() >= 0 && pi.Start() <= pi.End() && pi.End() <= len(p), sig(os, "PathIterator", "cursor"))
		sym.Assert(pi.IsLast() == (i == len(want)-1), sig(os, "PathIterator", "islast"))
		i++
		if i > n+1 {
			break
		}
	}
	sym.Observe("parts", i)
	sym.Assert(i == len(want), sig(os, "PathIterator", "count"))
}

// HReplacePart: splicing newPath in place of part k yields the Join of the
// pieces, and iteration continues with the components of the spliced path.
func HReplacePart(os, n, k, nn int) {
	p := sym.String("p", n)
	np := sym.String("np", nn)
	m := newFS(os)
	o := oracleFor(os)
	sym.Label(osName(os) + "|ReplacePart")
	sym.Assume(o.IsAbs(p))
	sym.Assume(o.Clean(p) == p)
	vol := len(o.VolumeName(p))
	comps := components(p[vol:], o.Sep)
	sym.Assume(k < len(comps))
	sym.Reach("ReplacePart")
	pi := avfs.NewPathIterator(m, p)
	for i := 0; i <= k; i++ {
		pi.Next()
	}
	left, right := pi.Left(), pi.Right()
	var want string
	if o.IsAbs(np) {
		want = o.Join(np, right)
	} else {
		want = o.Join(left, np, right)
	}
	res := sym.Outcome(func() { pi.ReplacePart(np) })
	sym.Assert(!res.Panicked, sig(os, "ReplacePart", "panic"))
	sym.Observe("path", pi.Path())
	sym.Assert(pi.Path() == want, sigc(os, "ReplacePart", "join", m, o, p, np, want))
	// iteration continues over the spliced path: the parts still to come are
	// exactly the components of the new path that follow Left()
	if res.Panicked || pi.Path() != want || !o.IsAbs(want) {
		return
	}
	nvol := len(o.VolumeName(want))
	all := components(want[nvol:], o.Sep)
	first := true
	idx := 0
	steps := 0
	for pi.Next() {
		if first {
			first = false
			l := pi.Left()
			sym.Assert(len(l) >= nvol && len(l) <= len(want), sigc(os, "ReplacePart", "continue-left", m, o, p, np, want))
			if len(l) < nvol || len(l) > len(want) {
				return
			}
			idx = len(components(l[nvol:], o.Sep))
		}
		sym.Assert(pi.Left()+pi.Part()+pi.Right() == want, sigc(os, "ReplacePart", "continue-reassemble", m, o, p, np, want))
		sym.Assert(idx < len(all), sigc(os, "ReplacePart", "continue-too-many-parts", m, o, p, np, want))
		if idx >= len(all) {
			return
		}
		sym.Assert(pi.Part() == all[idx], sigc(os, "ReplacePart", "continue-part", m, o, p, np, want))
		idx++
		steps++
		if steps > n+nn+2 {
			break
		}
	}
	if !first {
		sym.Assert(idx == len(all), sigc(os, "ReplacePart", "continue-count", m, o, p, np, want))
	}
}

// HFromUnixPath never panics (C07 shares this) and maps as documented.
func HFromUnixPath(os, n int) {
	p := sym.String("p", n)
	m := newFS(os)
	sym.Label(osName(os) + "|FromUnixPath")
	sym.Reach("FromUnixPath")
	var got string
	res := sym.Outcome(func() { got = avfs.FromUnixPath(m, p) })
	sym.Assert(!res.Panicked, sig(os, "FromUnixPath", "panic"))
	if os == 0 {
		sym.Assert(got == p, sig(os, "FromUnixPath", "identity"))
	}
}

// HSplitAbs: dir + separator + file reassembles an absolute clean path.
func HSplitAbs(os, n int) {
	p := sym.String("p", n)
	m := newFS(os)
	o := oracleFor(os)
	sym.Label(osName(os) + "|SplitAbs")
	sym.Assume(o.IsAbs(p))
	sym.Assume(o.Clean(p) == p)
	sym.Reach("SplitAbs")
	var d, f string
	res := sym.Outcome(func() { d, f = avfs.SplitAbs(m, p) })
	sym.Assert(!res.Panicked, sig(os, "SplitAbs", "panic"))
	sym.Assert(d+string(o.Sep)+f == p, sig(os, "SplitAbs", "reassemble"))
}

// HBad is a deliberately false claim (engine self-test): Clean is the identity.
func HBad(n int) {
	s := sym.String("s", n)
	m := newFS(0)
	sym.Assert(avfs.Clean(m, s) == s, "SELFTEST|Clean-is-identity")
}
