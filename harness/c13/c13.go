// Package c13: lexical path functions of avfs versus Go's path/filepath.
package c13

import (
	"path/filepath"

	"github.com/avfs/avfs"
	"github.com/avfs/avfs/vfs/memfs"

	"verif/harness/sym"
)

func init() {
	sym.Register("c13.HCleanLinux", HCleanLinux)
	sym.Register("c13.HBad", HBad)
}

func linuxFS() *memfs.MemFS {
	var m memfs.MemFS
	avfs.VerifSetOS(&m.OSTypeFn, avfs.OsLinux, '/')
	return &m
}

// HCleanLinux: avfs.Clean (generic implementation, Linux emulation) == filepath.Clean for every string of n bytes.
func HCleanLinux(n int) {
	s := sym.String("s", n)
	m := linuxFS()
	sym.Reach("called")
	got := avfs.Clean(m, s)
	want := filepath.Clean(s)
	sym.Observe("got", got)
	sym.Assert(got == want, "C13|linux|Clean|result")
}

// HBad is a deliberately false claim (engine self-test): Clean is the identity.
func HBad(n int) {
	s := sym.String("s", n)
	m := linuxFS()
	sym.Assert(avfs.Clean(m, s) == s, "SELFTEST|Clean-is-identity")
}
