#!/usr/bin/env python3
"""store_seeded.py <src dir> <ID-n> <change> <needs> <checks_run>  -- copies a sub-agent's mutant into /verif/seeded with meta.json"""
import sys, os, shutil, json, glob
src, name, change, needs, checks = sys.argv[1:6]
dst = os.path.join('/verif/seeded', name)
os.makedirs(dst, exist_ok=True)
for f in ('patch.diff', 'RUN.txt', 'meta.txt'):
    shutil.copy(os.path.join(src, f), dst)
for f in glob.glob(os.path.join(src, '*_test.go')):
    shutil.copy(f, os.path.join(dst, 'demo_test.go'))
json.dump({"property": name.split('-')[0], "change": change, "needs_to_manifest": needs,
 "confirmed": "patch applies to /repo HEAD, builds, listed test packages pass, demo fails with the patch and passes without (sub-agent run; re-confirmed with tools/confirm_seeded.sh)",
 "checks_run": checks, "source": "independent sub-agent given only the property text and a scratch worktree (" + os.environ.get("SEED_ROUND", "second round: asked for changes different in kind and location from the first round") + ")"},
 open(os.path.join(dst, 'meta.json'), 'w'), indent=1)
print("stored", dst)
