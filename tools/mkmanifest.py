#!/usr/bin/env python3
"""Regenerates /verif/MANIFEST.json from the table below (kept valid at all times)."""
import json, subprocess, sys

TECH = "solver-based bounded symbolic execution of go/ssa (z3 QF_BV; a sample of the queries re-answered by cvc5 and compared)"
LEVEL = "bounded symbolic execution of the real code's SSA (go/ssa of /repo's working tree); for every explored path the solver decides path-condition AND NOT assertion over all values of the symbolic inputs within the stated bounds; counterexamples are replayed against the natively compiled code before being reported"
claimed = {
 "C13": ("DESIGN.md §4 C13", "oracle = Go 1.23.5 path/filepath (Linux) and its mechanically retargeted Windows sources (cmd/genwin); trusted: symgo interpreter (cross-validated natively on every path), go/ssa, z3"),
 "C07": ("DESIGN.md §4 C07", "single-call histories after a fixed seed state plus probe calls; deadlock = no runnable thread in the engine's scheduler; trusted: symgo interpreter (every path replayed natively, hangs confirmed by watchdog), go/ssa, z3"),
}
claimed.update(json.load(open('/verif/tools/claimed.json')))
props = [json.loads(l) for l in open('/verif/properties.jsonl')]
na_reason = json.load(open('/verif/tools/not_applicable.json'))
checks = []
for p in props:
    i = p["id"]
    if i in claimed:
        ref, note = claimed[i]
        checks.append({"property_id": i, "quick_cmd": f"cd /verif && bin/check {i} quick", "thorough_cmd": f"cd /verif && bin/check {i} thorough",
                       "evidence_file": f"/verif/evidence/{i}.json", "replay_cmd_template": "cd /verif && bin/check replay {path}", "engine": "symgo",
                       "level_claimed": {"category": "other", "text": LEVEL, "design_ref": ref}, "level_note": note, "technique": TECH})
man = {
 "version": 1,
 "setup_cmd": "cd /verif && ./setup.sh",
 "hooks": {"guard": "verif", "enable": "no source hooks are committed to /repo: verification helpers are injected as overlay files from /verif/overlay (go/packages Overlay for the symbolic executor, go build -overlay for the native replay binary)",
           "baseline_off_cmd": "for m in . mage; do (cd /repo/$m && go test -mod=mod -json -vet=off -count=1 -timeout 25m ./...); done", "source_commits": [], "add_only": True},
 "engines": [{"name": "symgo", "path": "/verif/engine", "serves_properties": sorted(claimed), "kind_free_text": "symbolic executor for Go SSA (go/ssa) with z3 (QF_BV) as decision procedure and cvc5 as second solver on a sample of the queries; re-execution DFS over solver-decided branches; scheduler for interpreted goroutines; native replay of every sequential path"}],
 "checks": checks,
 "not_applicable": [{"property_id": p["id"], "reason": na_reason.get(p["id"], "check not built yet (engine and harness under construction); to be decided by the same symbolic executor")} for p in props if p["id"] not in claimed],
 "notes": "see DESIGN.md; known findings in known_findings.json; exit 3 = inconclusive (never a pass, never a violation)",
}
json.dump(man, open('/verif/MANIFEST.json', 'w'), indent=1)
print("claimed:", sorted(claimed))
