#!/bin/bash
# runs every claimed check of the given tier and prints one summary line per check
TIER=${1:-quick}
cd /verif
for id in $(python3 -c "import json;print(' '.join(c['property_id'] for c in json.load(open('MANIFEST.json'))['checks']))"); do
  S=$(date +%s); OUT=$(./bin/check $id $TIER 2>&1); RC=$?; E=$(( $(date +%s) - S ))
  echo "$id rc=$RC ${E}s :: $(echo "$OUT" | tail -1 | cut -c1-200)"
  [ $RC -ne 0 ] && echo "$OUT" | grep -E "^VIOLATION|signature|^INCONCL|^ENGINE|^VACUOUS" | head -8
done
