#!/usr/bin/env python3
"""add_known.py <ID> <check output> [--dry]  -- manual aid: for every new signature in the output of a
check run on the UNCHANGED tree, proposes a known-finding entry whose description is copied from the
most similar existing entry of the same property (same call and outcome fields first). Review the
printed table before committing; never run by the checks."""
import sys, json, re
pid, log = sys.argv[1], sys.argv[2]
dry = '--dry' in sys.argv
k = json.load(open('/verif/known_findings.json'))
have = [f for f in k if f['property'] == pid and f['status'] == 'known']
sigs = sorted(set(re.findall(r'signature: (\S.*)', open(log).read())))
def sim(a, b):
    fa, fb = a.split('|'), b.split('|')
    s = sum(2 for x in fa if x in fb)
    s += sum(1 for x, y in zip(fa, fb) if x == y)
    return s
added = 0
for s in sigs:
    if any(f['signature'] == s for f in k):
        continue
    best = max(have, key=lambda f: sim(s, f['signature'])) if have else None
    d = best['description'] if best else 'see DESIGN.md'
    print(s, '\n    <=', best['signature'] if best else '-', '\n    ', d[:150])
    if not dry:
        k.append({"property": pid, "signature": s, "status": "known", "description": d, "witness": "see the replay written by the check for this signature"})
        added += 1
if not dry:
    json.dump(k, open('/verif/known_findings.json', 'w'), indent=1)
print("added", added, "of", len(sigs))
