#!/bin/sh
# usage: trymutant.sh <patch.diff> <ID> [tier]   -- applies the patch to /repo, runs the check, reverts
P="$1"; ID="$2"; TIER="${3:-quick}"
cd /repo || exit 9
if [ -n "$(git status --porcelain)" ]; then echo "repo not clean"; exit 9; fi
git apply "$P" || { echo "patch does not apply"; exit 9; }
cd /verif
OUT=$(./bin/check "$ID" "$TIER" 2>&1); RC=$?
echo "$OUT" | grep -E "^VIOLATION|^INCONCLUSIVE|^ENGINE-MISMATCH|signature:|^$ID " | cut -c1-260 | head -${MAXL:-12}
echo "exit=$RC"
git -C /repo checkout -- .
# restore the evidence of the unchanged tree
git -C /verif checkout -- evidence/$ID.json 2>/dev/null
exit 0
