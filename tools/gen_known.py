#!/usr/bin/env python3
"""Adds exact-signature known findings for a property from a check output file.
usage: gen_known.py <ID> <check-output> ; descriptions come from the cause rules below."""
import json, re, sys
pid, out = sys.argv[1], sys.argv[2]
rules = [
 (r"\|OpenFile\|.*write-errno\|got-ok\|want-EBADF", "ToOpenMode derives write access from O_APPEND/O_TRUNC/O_CREATE: a handle opened O_RDONLY with one of these flags can be written (Linux: EBADF) "),
 (r"\|OpenFile\|.*got-EISDIR\|want-ok", "ToOpenMode derives write access from O_APPEND/O_TRUNC/O_CREATE: opening a directory O_RDONLY|O_APPEND (or |O_EXCL without O_CREATE) fails with EISDIR (Linux: succeeds)"),
 (r"\|OpenFile\|.*got-EISDIR\|want-EEXIST", "O_CREATE|O_EXCL on an existing directory answers EISDIR instead of EEXIST (existence is not checked first)"),
 (r"\|OpenFile\|dangling-link\|errno\|got-ok\|want-EEXIST", "O_CREATE|O_EXCL on the name of a dangling symbolic link follows the link and creates the target instead of failing with EEXIST"),
 (r"\|Mkdir(All)?\|(dangling-link|missing-parent)\|errno\|got-ok\|want-EEXIST", "Mkdir/MkdirAll on (or through) the name of a dangling symbolic link follow the link and create its target instead of failing with EEXIST (searchNode mode slmEval)"),
 (r"memfs\|Link\|.*link.*\|errno\|got-EPERM\|want-ok", "MemFS.Link refuses a symbolic link as source (EPERM); link(2) creates a hard link to the symbolic link itself"),
 (r"\|Rename\|(empty-)?dir,(empty-)?dir,same\|errno\|got-ok\|want-EEXIST", "Rename(dir, dir) with identical names returns nil; os.Rename answers EEXIST for an existing directory target before the system call"),
 (r"\|Rename\|.*\|errno\|got-EEXIST\|want-(EINVAL|ENOTDIR)", "Rename of a directory over an existing non-directory answers EEXIST; rename(2) answers ENOTDIR (or EINVAL when the target is below the source)"),
 (r"\|Rename\|missing,below-file\|errno\|got-ENOENT\|want-ENOTDIR", "Rename(missing, below-a-file): the source is looked up first (ENOENT); the kernel resolves both parents first (ENOTDIR)"),
 (r"orefafs\|.*\|errno\|got-(ENOENT|ok)\|want-ENOTDIR", "OrefaFS looks paths up in a flat index: an entry below a regular file is reported as missing (ENOENT, RemoveAll: nil) where the kernel answers ENOTDIR"),
 (r"orefafs\|Link\|.*\|errno\|got-EPERM\|want-EEXIST", "OrefaFS.Link tests 'source is a directory' (EPERM) before 'new name exists' (EEXIST); link(2) checks the new name first"),
 (r"orefafs\|Rename\|missing.*same\|errno\|got-ok\|want-ENOENT", "OrefaFS.Rename returns nil for identical names before checking that the source exists"),
]
fs = json.load(open('/verif/known_findings.json'))
have = {(f['property'], f['signature']) for f in fs}
sigs = sorted(set(re.findall(r"signature: (\S+)", open(out).read())))
added, unmatched = 0, []
for s in sigs:
    if (pid, s) in have: continue
    for rx, desc in rules:
        if re.search(rx, s):
            fs.append({"property": pid, "signature": s, "status": "known", "description": desc, "witness": "see the replay written by the check for this signature (operand kinds are in the signature)"})
            added += 1
            break
    else:
        unmatched.append(s)
json.dump(fs, open('/verif/known_findings.json', 'w'), indent=1)
print("added", added, "unmatched", len(unmatched))
for u in unmatched: print("  ", u)
