#!/bin/bash
# Runs the repository's pinned test suite (command of /root/.vp/BASELINE.json) on /repo's
# working tree and reports which of the stable-pass tests did not pass.
export GOFLAGS=-mod=mod GOPROXY=off GOSUMDB=off GOTOOLCHAIN=local
OUT=$(mktemp /dev/shm/baseline.XXXXXX)
for m in . ./mage; do (cd /repo/$m && go test -mod=mod -json -vet=off -count=1 -timeout 25m ./...); done > $OUT 2>/dev/null
python3 - $OUT <<'P'
import json,sys
passed=set()
for l in open(sys.argv[1]):
    try: e=json.loads(l)
    except Exception: continue
    if e.get('Action')=='pass' and e.get('Test'):
        passed.add(e['Package']+'::'+e['Test'])
b=json.load(open('/root/.vp/BASELINE.json'))
want=set(b['stable_pass'])
missing=sorted(want-passed)
print("stable tests: %d, passed now: %d, missing: %d"%(len(want),len(want&passed),len(missing)))
for m in missing[:40]: print("  NOT PASSING:",m)
sys.exit(1 if missing else 0)
P
RC=$?
rm -f $OUT
exit $RC
