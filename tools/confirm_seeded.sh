#!/bin/bash
# Confirms seeded mutants in a scratch worktree: patch applies, builds (both tag
# sets), the listed test packages pass, the demo fails with the patch and
# passes without it. usage: confirm_seeded.sh <seeded dir>...
export GOFLAGS=-mod=mod GOPROXY=off GOSUMDB=off GOTOOLCHAIN=local
WT=/tmp/confirm_wt
git -C /repo worktree remove --force $WT 2>/dev/null
git -C /repo worktree add -q --detach $WT HEAD || exit 9
PKGS=". ./vfs/memfs ./vfs/orefafs ./vfs/rofs ./vfs/basepathfs ./vfs/failfs ./idm/memidm"
for D in "$@"; do
  N=$(basename $D)
  cd $WT && git checkout -q -- . && git clean -fdq
  RUN=$(grep -v "^#" $D/RUN.txt | grep -E "go (test|run)" | head -1 | sed "s/^ *cd [^&]*&& *//; s/^ *export [^&]*&& *//")
  PKGDIR=$(echo "$RUN" | awk '{print $NF}')
  PKGDIR=${PKGDIR%/}
  case "$PKGDIR" in ./*) DEST="${PKGDIR#./}/zz_demo_test.go";; *) DEST="zz_demo_test.go";; esac
  DEMO=$(ls $D/*_test.go 2>/dev/null | head -1)
  if ! git apply $D/patch.diff; then echo "$N: PATCH-DOES-NOT-APPLY"; continue; fi
  B1=ok; go build ./... >/dev/null 2>&1 || B1=FAIL
  B2=ok; go build -tags avfs_setostype ./... >/dev/null 2>&1 || B2=FAIL
  T=ok; go test -vet=off -count=1 $PKGS >/tmp/confirm_t.log 2>&1 || T=FAIL
  mkdir -p $(dirname $WT/$DEST); cp $DEMO $WT/$DEST
  DM=pass; (cd $WT && timeout 120 bash -c "$RUN" >/tmp/confirm_d1.log 2>&1) || DM=fail
  rm -f $WT/$DEST; git checkout -q -- .; mkdir -p $(dirname $WT/$DEST); cp $DEMO $WT/$DEST
  DC=pass; (cd $WT && timeout 120 bash -c "$RUN" >/tmp/confirm_d2.log 2>&1) || DC=fail
  rm -f $WT/$DEST
  echo "$N: build=$B1 build-tag=$B2 suite=$T demo-with-patch=$DM demo-without=$DC   [$RUN -> $DEST]"
done
cd /; git -C /repo worktree remove --force $WT
