#!/bin/sh
# Builds the check driver offline from /verif sources and the module cache.
set -e
cd /verif
export GOFLAGS=-mod=mod GOPROXY=off GOSUMDB=off GOTOOLCHAIN=local
mkdir -p bin work evidence replays
go run ./cmd/genwin /verif/harness/gen >/dev/null
go build -o bin/check ./cmd/check
go build -o bin/symgo ./cmd/symgo
echo "setup ok"
